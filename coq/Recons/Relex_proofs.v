(* C19, character level.
   join_pieces / join_strip : what Reconstructor.reconstruct writes - the item texts in order, with one blank exactly
                              between two items whose neighbouring characters are both id-continue characters.
   relex                    : under the boundary condition bc_b the model of lark's BasicLexer maps the joined text
                              back to the written (type, text) tokens: H_relex as a decidable condition. *)
From Coq Require Import ZArith String Ascii List Arith Bool Lia.
From LV Require Import Base.Prelude Lex.LexerBase Lex.Lexer Recons.Recons Recons.Relex.
Import ListNotations.

Lemma slen_app a b : String.length (append a b) = String.length a + String.length b.
Proof. induction a; simpl; auto. Qed.

Lemma sapp_assoc a b c : append (append a b) c = append a (append b c).
Proof. induction a; simpl; auto. rewrite IHa. reflexivity. Qed.

Lemma sapp_nil_r a : append a EmptyString = a.
Proof. induction a; simpl; auto. rewrite IHa. reflexivity. Qed.

Lemma substring_head x suf : substring 0 (String.length x) (append x suf) = x.
Proof. induction x; simpl; [destruct suf; reflexivity|]. rewrite IHx. reflexivity. Qed.

Lemma substring_mid pre x suf :
  substring (String.length pre) (String.length x) (append pre (append x suf)) = x.
Proof. induction pre; simpl; [apply substring_head|exact IHpre]. Qed.

(* ---- the spacing rule -------------------------------------------------------------------------- *)
Definition cat (l : list string) : string := fold_right append EmptyString l.

Theorem join_pieces prev items : join_sp prev items = cat (pieces prev items).
Proof. revert prev. induction items as [|it rest IH]; intros prev; simpl; auto. rewrite IH. reflexivity. Qed.

(* a separator is the single blank, and it is there iff both neighbouring characters are id-continue characters *)
Theorem need_space_spec prev it :
  need_space prev it = true <->
  exists a b, last_char prev = Some a /\ first_char it = Some b /\ is_id_continue a = true /\ is_id_continue b = true.
Proof.
  unfold need_space. destruct (last_char prev) as [a|]; destruct (first_char it) as [b|]; split;
    try (intros H; discriminate); try (intros (a' & b' & H1 & H2 & _); discriminate).
  - intros H. apply andb_true_iff in H. exists a, b. tauto.
  - intros (a' & b' & H1 & H2 & H3 & H4). inversion H1; inversion H2; subst. rewrite H3, H4. reflexivity.
Qed.

Lemma strip_app a b : strip_sp (append a b) = append (strip_sp a) (strip_sp b).
Proof. induction a as [|c a IH]; simpl; auto. destruct (Ascii.eqb c " "); simpl; rewrite IH; reflexivity. Qed.

(* nothing but blanks is added, nothing is dropped or reordered *)
Theorem join_strip prev items : Forall (fun x => strip_sp x = x) items -> strip_sp (join_sp prev items) = cat items.
Proof.
  revert prev. induction items as [|it rest IH]; intros prev HF; simpl; auto.
  inversion HF as [|? ? Hx HF']; subst. rewrite !strip_app, (IH it HF'), Hx.
  destruct (need_space prev it); reflexivity.
Qed.

(* ---- re-lexing ----------------------------------------------------------------------------------- *)
Section RelexProofs.
  Variable m : term -> string -> nat -> option nat.
  Variable cok : list term -> bool.
  Variable names : list string.
  Variable L : blexer.
  Variable text : string.

  Lemma lex_raw_step f p t k : scan m text (lx_mres L) p = Some (t, k) -> p < String.length text ->
    lex_raw m text (S f) (lx_mres L) p =
    (mkRaw t p k :: fst (lex_raw m text f (lx_mres L) (p + k)), snd (lex_raw m text f (lx_mres L) (p + k))).
  Proof.
    intros Hs Hp. simpl. destruct (Nat.leb_spec (String.length text) p); [lia|]. rewrite Hs.
    destruct (lex_raw m text f (lx_mres L) (p + k)). reflexivity.
  Qed.

  Lemma lex_raw_eof f p : String.length text <= p -> lex_raw m text f (lx_mres L) p = ([], AtEOF).
  Proof. intros H. destruct f; simpl; destruct (Nat.leb_spec (String.length text) p); auto; lia. Qed.

  Lemma relex_gen : forall toks pre prev fuel,
    text = append pre (join_sp prev (map snd toks)) ->
    String.length text - String.length pre < fuel ->
    bc_b m names L text (String.length pre) prev toks = true ->
    exists rs, lex_raw m text fuel (lx_mres L) (String.length pre) = (rs, AtEOF) /\
               conv_toks names text (emit lower m text (lx_terms L) (lx_ign L) rs) = Some toks.
  Proof.
    induction toks as [|[n x] rest IH]; intros pre prev fuel Et Hf Hb.
    - simpl in Et. rewrite sapp_nil_r in Et. exists []. split; auto. apply lex_raw_eof. rewrite Et. lia.
    - cbn [map snd join_sp] in Et. cbn [bc_b] in Hb. apply andb_true_iff in Hb. destruct Hb as (Hsp & Hb).
      set (sp := if need_space prev x then " "%string else EmptyString) in *.
      set (q := if need_space prev x then S (String.length pre) else String.length pre) in *.
      assert (Eq : q = String.length (append pre sp)).
      { unfold q, sp. rewrite slen_app. destruct (need_space prev x); simpl; lia. }
      destruct (scan m text (lx_mres L) q) as [[t k]|] eqn:Es; [|discriminate].
      apply andb_true_iff in Hb. destruct Hb as (Hb & Hrest).
      apply andb_true_iff in Hb. destruct Hb as (Hb & Hname). apply andb_true_iff in Hb. destruct Hb as (Hb & Hign).
      apply andb_true_iff in Hb. destruct Hb as (Hk & Hk0). apply Nat.eqb_eq in Hk. apply negb_true_iff in Hk0.
      apply Nat.eqb_neq in Hk0. apply negb_true_iff in Hign. subst k.
      assert (Et2 : text = append (append pre sp) (append x (join_sp x (map snd rest)))).
      { rewrite Et, sapp_assoc. reflexivity. }
      assert (Hlen : String.length text = q + String.length x + String.length (join_sp x (map snd rest))).
      { rewrite Et2, (slen_app (append pre sp)), (slen_app x), <- Eq. lia. }
      assert (Et3 : text = append (append (append pre sp) x) (join_sp x (map snd rest))).
      { rewrite Et2. symmetry. apply sapp_assoc. }
      assert (Hq' : q + String.length x = String.length (append (append pre sp) x)).
      { rewrite (slen_app (append pre sp)), <- Eq. reflexivity. }
      assert (Hsub : substring q (String.length x) text = x).
      { rewrite Et2, Eq. apply substring_mid. }
      (* the token itself, from position q with fuel f *)
      assert (Htok : forall f, String.length text - q < S f ->
                exists rs, lex_raw m text (S f) (lx_mres L) q = (rs, AtEOF) /\
                           conv_toks names text (emit lower m text (lx_terms L) (lx_ign L) rs) = Some ((n, x) :: rest)).
      { intros f Hf'. rewrite Hq' in Hrest.
        destruct (IH (append (append pre sp) x) x f Et3) as (rs & Hr & Hc); [rewrite <- Hq'; lia|exact Hrest|].
        rewrite <- Hq' in Hr.
        exists (mkRaw t q (String.length x) :: rs). split.
        - rewrite (lex_raw_step f q t _ Es); [|lia]. rewrite Hr. reflexivity.
        - unfold emit. cbn [filter]. unfold ignored at 1. cbn [rterm]. rewrite Hign. cbn [negb map conv_toks tok_of rterm rstart rlen ktype kstart klen].
          rewrite Hsub. destruct (name_index names (report lower m (lx_terms L) t x)) as [n'|]; [|discriminate].
          simpl in Hname. apply Nat.eqb_eq in Hname. subst n'. unfold emit in Hc. rewrite Hc. reflexivity. }
      unfold q in *. clear q. destruct (need_space prev x) eqn:Ens.
      + (* a blank was inserted: it is scanned as one ignored terminal *)
        destruct (scan m text (lx_mres L) (String.length pre)) as [[tb kb]|] eqn:Esb; [|discriminate].
        destruct kb as [|[|kb]]; try discriminate.
        destruct fuel as [|[|f]]; [lia| |].
        { exfalso. rewrite Hlen in Hf. lia. }
        destruct (Htok f) as (rs & Hr & Hc); [lia|].
        exists (mkRaw tb (String.length pre) 1 :: rs). split.
        * rewrite (lex_raw_step (S f) _ tb 1 Esb); [|lia].
          replace (String.length pre + 1) with (S (String.length pre)) by lia. rewrite Hr. reflexivity.
        * unfold emit. cbn [filter]. unfold ignored at 1. cbn [rterm]. rewrite Hsp. cbn [negb]. exact Hc.
      + destruct fuel as [|f]; [lia|]. destruct (Htok f) as (rs & Hr & Hc); [lia|]. exists rs. split; auto.
  Qed.

  (* H_relex from the boundary condition *)
  Theorem relex toks : text = reconstruct_text toks ->
    bc_b m names L text 0 EmptyString toks = true -> lex_with m names L text = Some toks.
  Proof.
    intros Et Hb. unfold lex_with, lex_from.
    destruct (relex_gen toks EmptyString EmptyString (S (String.length text - 0))) as (rs & Hr & Hc).
    - exact Et.
    - simpl. lia.
    - exact Hb.
    - simpl in Hr. simpl. rewrite Hr. exact Hc.
  Qed.
End RelexProofs.

Theorem relex_model m cok names terms ign L toks :
  make_lexer m cok terms ign = Some L ->
  bc_b m names L (reconstruct_text toks) 0 EmptyString toks = true ->
  lex_model m cok names terms ign (reconstruct_text toks) = Some toks.
Proof. intros HL Hb. unfold lex_model. rewrite HL. apply relex; auto. Qed.
