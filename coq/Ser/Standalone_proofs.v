(* C11, stand-alone clause - same definitions => same runs.  The evaluator of Python code is a Section parameter
   with one hypothesis (locality: the result of running an entry point depends only on the definitions reachable
   from it through global-name references); everything else is proved. *)
From Coq Require Import List String Bool.
From LV Require Import Ser.StandaloneModel.
Import ListNotations.
Local Open Scope string_scope.
Local Open Scope list_scope.

Lemma mem_In x l : mem x l = true <-> In x l.
Proof.
  induction l as [|y r IH]; cbn; [split; [discriminate|contradiction]|].
  destruct (String.eqb_spec x y) as [->|N]; [split; auto|].
  rewrite IH. split; [auto|]. intros [E|H]; [congruence|exact H].
Qed.

Section SameProgram.
  Variable D : Type.                               (* a definition: its (normalised) abstract syntax *)
  Variable V : Type.                               (* observable result of a run *)
  Variable refs : D -> list string.                (* the global names a definition mentions *)
  Definition prog := string -> option D.           (* a program: finite map from names to definitions *)

  Inductive reachable (p : prog) (entry : string) : string -> Prop :=
  | reach_entry : reachable p entry entry
  | reach_ref m d n : reachable p entry m -> p m = Some d -> In n (refs d) -> reachable p entry n.

  Variable run : prog -> string -> V.              (* the abstract evaluator: run [entry] in program [p] *)
  Hypothesis run_local : forall p q entry,
    (forall n, reachable p entry n -> p n = q n) -> run p entry = run q entry.

  (* a list that contains the entry point and is closed under references covers everything reachable *)
  Lemma closure_sound (p : prog) cl entry :
    closure_ok_b (fun m => option_map refs (p m)) cl entry = true ->
    forall n, reachable p entry n -> In n cl.
  Proof.
    unfold closure_ok_b. intros H. apply andb_true_iff in H. destruct H as (He & Hc).
    rewrite forallb_forall in Hc. intros n R. induction R as [|m d n R IH Hm Hn].
    - apply mem_In. exact He.
    - specialize (Hc m IH). rewrite Hm in Hc. cbn in Hc. rewrite forallb_forall in Hc.
      apply mem_In. apply Hc. exact Hn.
  Qed.

  Theorem same_program (lib sa : prog) cl entry :
    closure_ok_b (fun m => option_map refs (sa m)) cl entry = true ->
    (forall n, In n cl -> sa n = lib n) ->
    run sa entry = run lib entry.
  Proof.
    intros Hcl Hsame. apply run_local. intros n R. apply Hsame. apply (closure_sound sa cl entry Hcl n R).
  Qed.
End SameProgram.

(* the list-based program of Ser/StandaloneModel.v seen as such a map, definitions identified by AST hash *)
Definition as_prog (p : list sdef) : string -> option (string * list string) :=
  fun n => option_map (fun d => (s_hash d, s_refs d)) (lookup n p).

Lemma closed_program_sound builtins allowed p r l :
  closed_program builtins allowed p = true -> In (r, l) (unprovided builtins p) -> In r allowed.
Proof.
  unfold closed_program. intros H Hin. rewrite forallb_forall in H. apply mem_In. apply (H (r, l) Hin).
Qed.

Lemma unprovided_complete builtins p d r :
  In d p -> In r (s_refs d) -> In r (provided p) \/ In r builtins \/ In (r, s_label d) (unprovided builtins p).
Proof.
  intros Hd Hr. destruct (mem r (provided p)) eqn:A; [left; apply mem_In; exact A|].
  destruct (mem r builtins) eqn:B; [right; left; apply mem_In; exact B|].
  right. right. unfold unprovided. apply in_flat_map. exists d. split; [exact Hd|].
  apply (in_map (fun r0 => (r0, s_label d))). apply filter_In. split; [exact Hr|]. rewrite A, B. reflexivity.
Qed.

(* closed program: every global name any extracted definition mentions is bound by the module, a builtin, or one
   of the declared construction / serialisation-only names *)
Theorem closed_program_spec builtins allowed p :
  closed_program builtins allowed p = true ->
  forall d r, In d p -> In r (s_refs d) -> In r (provided p) \/ In r builtins \/ In r allowed.
Proof.
  intros H d r Hd Hr. destruct (unprovided_complete builtins p d r Hd Hr) as [X|[X|X]]; auto.
  right. right. apply (closed_program_sound _ _ _ _ _ H X).
Qed.

(* import-time order: when a statement runs, everything it evaluates is already bound *)
Theorem ordered_program_spec p : forall seen,
  ordered_from seen p = true ->
  forall pre d post, p = pre ++ d :: post -> forall x, In x (s_eager d) -> In x seen \/ In x (provided pre).
Proof.
  induction p as [|e r IH]; intros seen H pre d post E x Hx; [destruct pre; discriminate|].
  cbn in H. apply andb_true_iff in H. destruct H as (H1 & H2).
  destruct pre as [|e' pre']; cbn in E; inversion E; subst.
  - left. rewrite forallb_forall in H1. apply mem_In. apply H1. exact Hx.
  - destruct (IH _ H2 pre' d post eq_refl x Hx) as [A|A].
    + apply in_app_or in A. destruct A as [A|A]; [right; unfold provided; cbn; apply in_or_app; auto|left; exact A].
    + right. unfold provided. cbn. apply in_or_app. right. exact A.
Qed.

(* agreement on a reference-closed list transfers the closure check *)
Lemma closure_ok_agree (f g : string -> option (list string)) cl entry :
  (forall n, In n cl -> f n = g n) -> closure_ok_b f cl entry = closure_ok_b g cl entry.
Proof.
  intros H. unfold closure_ok_b. f_equal.
  assert (G : forall l, (forall n, In n l -> In n cl) ->
             forallb (fun m => match f m with Some rs => forallb (fun r => mem r cl) rs | None => true end) l =
             forallb (fun m => match g m with Some rs => forallb (fun r => mem r cl) rs | None => true end) l).
  { induction l as [|m r IH]; intros Hl; [reflexivity|]. cbn. rewrite (H m (Hl m (or_introl eq_refl))).
    f_equal. apply IH. intros n Hn. apply Hl. right. exact Hn. }
  apply G. auto.
Qed.

(* the generated module against the regenerated library program: definitions identified by (AST hash, references) *)
Theorem generated_module_same_runs (V : Type) (run : (string -> option (string * list string)) -> string -> V) :
  (forall p q entry, (forall n, reachable _ snd p entry n -> p n = q n) -> run p entry = run q entry) ->
  forall lib gen cl entry,
  closure_ok_b (fun m => option_map snd (as_prog lib m)) cl entry = true ->
  (forall n, In n cl -> as_prog gen n = as_prog lib n) ->
  run (as_prog gen) entry = run (as_prog lib) entry.
Proof.
  intros Hloc lib gen cl entry Hcl Hag.
  apply (same_program _ V snd run Hloc (as_prog lib) (as_prog gen) cl entry); [|exact Hag].
  rewrite <- Hcl. apply closure_ok_agree. intros n Hn. rewrite (Hag n Hn). reflexivity.
Qed.
