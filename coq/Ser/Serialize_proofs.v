(* C11 - proofs about the save / load model of Ser/Serialize.v.  The regenerated lists of Gen/SerializeFields.v are
   used through computation: removing an attribute from a __serialize_fields__ tuple, changing a tag or dropping a
   re-supply line changes the normal form of the model and the corresponding lemma below stops type-checking. *)
From Coq Require Import ZArith List Bool String Ascii Lia.
From LV Require Import Ser.Value Gen.SerializeFields Ser.Serialize.
Import ListNotations.
Local Open Scope string_scope.
Local Open Scope list_scope.

(* ------------------------------------------------------------------ small conversions *)
Lemma as_oint_of_oint p : as_oint (of_oint p) = Some p.
Proof. destruct p; reflexivity. Qed.
Lemma as_ostr_of_ostr p : as_ostr (of_ostr p) = Some p.
Proof. destruct p; reflexivity. Qed.
Lemma omap_as_bool l : omap as_bool (map VBool l) = Some l.
Proof. induction l; cbn; [reflexivity|]. rewrite IHl. reflexivity. Qed.
Lemma omap_as_str l : omap as_str (map VStr l) = Some l.
Proof. induction l; cbn; [reflexivity|]. rewrite IHl. reflexivity. Qed.

Lemma omap_app {A B} (f : A -> option B) l1 l2 r1 r2 :
  omap f l1 = Some r1 -> omap f l2 = Some r2 -> omap f (l1 ++ l2) = Some (r1 ++ r2).
Proof.
  revert r1. induction l1; cbn; intros r1 H1 H2.
  - inversion H1; subst. exact H2.
  - destruct (f a); [|discriminate]. destruct (omap f l1) eqn:E; [|discriminate].
    inversion H1; subst. rewrite (IHl1 l eq_refl H2). reflexivity.
Qed.

(* ------------------------------------------------------------------ Enumerator *)
Section EnumFacts.
  Context {A : Type} (eqb : A -> A -> bool).

  Lemma find_index_Some x e n :
    find_index eqb x e = Some n -> exists y, nth_error e n = Some y /\ eqb x y = true /\ In y e.
  Proof.
    revert n. induction e as [|y r IH]; cbn; intros n H; [discriminate|].
    destruct (eqb x y) eqn:E.
    - inversion H; subst. exists y. cbn. auto.
    - destruct (find_index eqb x r) eqn:F; [|discriminate]. inversion H; subst.
      destruct (IH n0 eq_refl) as (z & Hn & He & Hi). exists z. cbn. auto.
  Qed.

  Lemma find_index_None x e : find_index eqb x e = None -> forall y, In y e -> eqb x y = false.
  Proof.
    induction e as [|z r IH]; cbn; intros H y Hy; [contradiction|].
    destruct (eqb x z) eqn:E; [discriminate|].
    destruct (find_index eqb x r) eqn:F; [discriminate|].
    destruct Hy as [->|Hy]; auto.
  Qed.

  (* get() returns a number under which an item with the same key is (and stays) registered; the table only
     grows at the end *)
  Lemma enum_get_spec x e n e' :
    eqb x x = true -> enum_get eqb e x = (n, e') ->
    (e' = e \/ e' = e ++ [x]) /\
    exists y, nth_error e' n = Some y /\ eqb x y = true /\ (In y e \/ y = x).
  Proof.
    intros Hr. unfold enum_get. destruct (find_index eqb x e) eqn:F; intros H; inversion H; subst; clear H.
    - split; [auto|]. destruct (find_index_Some _ _ _ F) as (y & Hn & He & Hi). exists y. auto.
    - split; [auto|]. exists x. split; [|auto].
      rewrite nth_error_app2 by lia. rewrite Nat.sub_diag. reflexivity.
  Qed.

  (* the numbering is injective on keys: two different numbers never carry the same key *)
  Lemma enum_get_fresh x e n e' :
    enum_get eqb e x = (n, e') -> e' = e ++ [x] -> e' <> e -> forall y, In y e -> eqb x y = false.
  Proof.
    unfold enum_get. destruct (find_index eqb x e) eqn:F; intros H; inversion H; subst; clear H.
    - intros _ Hne. contradiction.
    - intros _ _. apply find_index_None. exact F.
  Qed.
End EnumFacts.

Definition ext {A} (m m' : list A) : Prop := exists s, m' = m ++ s.
Lemma ext_refl {A} (m : list A) : ext m m.
Proof. exists []. rewrite app_nil_r. reflexivity. Qed.
Lemma ext_trans {A} (a b c : list A) : ext a b -> ext b c -> ext a c.
Proof. intros [s ->] [t ->]. exists (s ++ t). rewrite app_assoc. reflexivity. Qed.
Lemma ext_nth {A} (m m' : list A) n y : ext m m' -> nth_error m n = Some y -> nth_error m' n = Some y.
Proof.
  intros [s ->] H. rewrite nth_error_app1; [exact H|]. apply nth_error_Some. rewrite H. discriminate.
Qed.

(* reversed(): looking a number up in the reversed dict gives the registered item *)
Lemma dgeti_reversed_from {A} (f : A -> value) e : forall k i x,
  nth_error e i = Some x -> dgeti (Z.of_nat (k + i)) (reversed_from f k e) = Some (f x).
Proof.
  induction e as [|y r IH]; intros k i x H; [destruct i; discriminate|].
  destruct i as [|i]; cbn in *.
  - inversion H; subst. rewrite Nat.add_0_r, Z.eqb_refl. reflexivity.
  - destruct (Z.eqb_spec (Z.of_nat (k + S i)) (Z.of_nat k)) as [E|_]; [lia|].
    replace (k + S i)%nat with (S k + i)%nat by lia. apply IH. exact H.
Qed.
Lemma dgeti_reversed {A} (f : A -> value) e i x :
  nth_error e i = Some x -> dgeti (Z.of_nat i) (enum_reversed f e) = Some (f x).
Proof. intros H. apply (dgeti_reversed_from f e 0 i x H). Qed.

(* ------------------------------------------------------------------ the memo table *)
Fixpoint tbl_from (k : nat) (m : memo) : memo_tbl :=
  match m with [] => [] | e :: r => (Z.of_nat k, e) :: tbl_from (S k) r end.
Definition tbl_of (m : memo) : memo_tbl := tbl_from 0 m.
Lemma tbl_get_from m : forall k i, tbl_get (Z.of_nat (k + i)) (tbl_from k m) = nth_error m i.
Proof.
  induction m as [|e r IH]; intros k i; [destruct i; reflexivity|].
  destruct i as [|i]; cbn.
  - rewrite Nat.add_0_r, Z.eqb_refl. reflexivity.
  - destruct (Z.eqb_spec (Z.of_nat (k + S i)) (Z.of_nat k)) as [E|_]; [lia|].
    replace (k + S i)%nat with (S k + i)%nat by lia. apply IH.
Qed.
Lemma tbl_get_of m i : tbl_get (Z.of_nat i) (tbl_of m) = nth_error m i.
Proof. apply (tbl_get_from m 0 i). Qed.

(* ------------------------------------------------------------------ full objects: deserialize (serialize x) = x *)
(* a freshly built parser holds its pattern flags in a frozenset *)
Definition flags_ok (f : flagsv) : Prop := match f with FSet _ => True | FList _ => False end.
Definition pattern_flags (p : pattern) : flagsv := match p with PatStr _ f _ | PatRE _ f _ _ => f end.
Definition pattern_ok (p : pattern) : Prop := flags_ok (pattern_flags p).
Definition termdef_ok (t : termdef) : Prop := pattern_ok (td_pattern t).
Definition mentry_ok (e : mentry) : Prop := match e with MTerm t => termdef_ok t | MRule _ => True end.

Lemma flags_roundtrip f : flags_ok f -> deser_flags (ser_flags f) = Some f.
Proof.
  destruct f as [l|l]; cbn; [intros _|contradiction].
  unfold deser_flags. rewrite omap_as_str. reflexivity.
Qed.
Lemma width_roundtrip w : deser_width (ser_width w) = Some w.
Proof. destruct w; reflexivity. Qed.
Arguments deser_flags : simpl never.
Arguments ser_flags : simpl never.
Arguments deser_width : simpl never.
Arguments ser_width : simpl never.

Lemma pattern_roundtrip p v : pattern_ok p -> ser_pattern p = Some v -> deser_pattern v = Some p.
Proof.
  destruct p as [pv fl raw|pv fl raw w]; unfold pattern_ok; cbn [pattern_flags]; intros Hf H;
    unfold ser_pattern, ser_obj in H; cbn in H; inversion H; subst; clear H; cbn;
    rewrite (flags_roundtrip _ Hf), as_ostr_of_ostr; cbn; [reflexivity|].
  rewrite width_roundtrip. reflexivity.
Qed.
Lemma pattern_total p : exists v, ser_pattern p = Some v.
Proof. destruct p; unfold ser_pattern, ser_obj; cbn; eexists; reflexivity. Qed.
Arguments ser_pattern : simpl never.
Arguments deser_pattern : simpl never.

Lemma termdef_roundtrip t v :
  termdef_ok t -> ser_termdef_full t = Some v ->
  exists d, v = VDict d /\ type_of d = Some "TerminalDef" /\ deser_termdef_full d = Some t.
Proof.
  destruct t as [n p pr]. unfold termdef_ok. cbn [td_pattern]. intros Hp H.
  unfold ser_termdef_full, ser_obj in H. cbn in H.
  destruct (ser_pattern p) as [pv|] eqn:E; cbn in H; [|discriminate].
  inversion H; subst; clear H. eexists. split; [reflexivity|]. split; [reflexivity|].
  cbn. rewrite (pattern_roundtrip _ _ Hp E). reflexivity.
Qed.
Lemma termdef_total t : exists v, ser_termdef_full t = Some v.
Proof.
  destruct t as [n p pr]. unfold ser_termdef_full, ser_obj. cbn.
  destruct (pattern_total p) as [pv ->]. cbn. eexists; reflexivity.
Qed.

Lemma sym_roundtrip s v : ser_sym s = Some v -> deser_sym v = Some s.
Proof.
  destruct s as [n fo|n]; unfold ser_sym, ser_obj; cbn; intros H; inversion H; subst; reflexivity.
Qed.
Lemma sym_total s : exists v, ser_sym s = Some v.
Proof. destruct s; unfold ser_sym, ser_obj; cbn; eexists; reflexivity. Qed.
Arguments ser_sym : simpl never.
Arguments deser_sym : simpl never.
Lemma syms_roundtrip l vs : omap ser_sym l = Some vs -> omap deser_sym vs = Some l.
Proof.
  revert vs. induction l as [|s r IH]; cbn; intros vs H.
  - inversion H; reflexivity.
  - destruct (ser_sym s) eqn:E; [|discriminate]. destruct (omap ser_sym r) eqn:F; [|discriminate].
    inversion H; subst. cbn. rewrite (sym_roundtrip _ _ E), (IH _ eq_refl). reflexivity.
Qed.
Lemma syms_total l : exists vs, omap ser_sym l = Some vs.
Proof.
  induction l as [|s r [vs IH]]; cbn; [eexists; reflexivity|].
  destruct (sym_total s) as [v ->]. rewrite IH. eexists; reflexivity.
Qed.

Lemma rule_options_roundtrip o v : ser_rule_options o = Some v -> deser_rule_options v = Some o.
Proof.
  destruct o as [k e p ts ei]. unfold ser_rule_options, ser_obj. cbn.
  intros H. inversion H; subst; clear H. cbn.
  rewrite as_oint_of_oint, as_ostr_of_ostr. cbn. rewrite omap_as_bool. reflexivity.
Qed.
Lemma rule_options_total o : exists v, ser_rule_options o = Some v.
Proof. destruct o. unfold ser_rule_options, ser_obj. cbn. eexists; reflexivity. Qed.
Arguments ser_rule_options : simpl never.
Arguments deser_rule_options : simpl never.

Lemma rule_roundtrip r v :
  ser_rule_full r = Some v ->
  exists d, v = VDict d /\ type_of d = Some "Rule" /\ dhas REF_KEY d = false /\ deser_rule_full d = Some r.
Proof.
  destruct r as [o ex ord al op]. unfold ser_rule_full, ser_obj. cbn. intros H.
  destruct (ser_sym o) as [ov|] eqn:E1; cbn in H; [|discriminate].
  destruct (omap ser_sym ex) as [exv|] eqn:E2; cbn in H; [|discriminate].
  destruct (ser_rule_options op) as [opv|] eqn:E3; cbn in H; [|discriminate].
  inversion H; subst; clear H. eexists. split; [reflexivity|]. split; [reflexivity|]. split; [reflexivity|].
  cbn. rewrite (sym_roundtrip _ _ E1). cbn. rewrite (syms_roundtrip _ _ E2). cbn.
  rewrite as_ostr_of_ostr. cbn. rewrite (rule_options_roundtrip _ _ E3). reflexivity.
Qed.
Lemma rule_total r : exists v, ser_rule_full r = Some v.
Proof.
  destruct r as [o ex ord al op]. unfold ser_rule_full, ser_obj. cbn.
  destruct (sym_total o) as [ov ->]. destruct (syms_total ex) as [exv ->]. cbn.
  destruct (rule_options_total op) as [opv ->]. cbn. eexists; reflexivity.
Qed.

(* memo_roundtrip, entry level: SerializeMemoizer.deserialize restores every memoised object *)
Lemma mentry_roundtrip e v : mentry_ok e -> ser_mentry_full e = Some v -> deser_mentry v = Some e.
Proof.
  destruct e as [t|r]; cbn [mentry_ok ser_mentry_full]; intros Hok H.
  - destruct (termdef_roundtrip _ _ Hok H) as (d & -> & Ht & Hd).
    unfold deser_mentry, typed_dict. rewrite Ht. cbn. rewrite Hd. reflexivity.
  - destruct (rule_roundtrip _ _ H) as (d & -> & Ht & _ & Hd).
    unfold deser_mentry, typed_dict. rewrite Ht. cbn. rewrite Hd. reflexivity.
Qed.
Lemma mentry_total e : exists v, ser_mentry_full e = Some v.
Proof. destruct e; cbn; [apply termdef_total|apply rule_total]. Qed.

Lemma memo_from_roundtrip m : forall k d,
  Forall mentry_ok m -> ser_memo_from k m = Some d -> deser_memo d = Some (tbl_from k m).
Proof.
  induction m as [|e r IH]; cbn; intros k d Hok H.
  - inversion H; reflexivity.
  - inversion Hok as [|? ? Ho Hr]; subst.
    destruct (ser_mentry_full e) eqn:E; [|discriminate].
    destruct (ser_memo_from (S k) r) eqn:F; [|discriminate]. inversion H; subst; clear H.
    cbn. rewrite (mentry_roundtrip _ _ Ho E), (IH _ _ Hr F). reflexivity.
Qed.
Lemma memo_from_total m : forall k, exists d, ser_memo_from k m = Some d.
Proof.
  induction m as [|e r IH]; cbn; intros k; [eexists; reflexivity|].
  destruct (mentry_total e) as [v ->]. destruct (IH (S k)) as [d ->]. eexists; reflexivity.
Qed.

Theorem memo_roundtrip m mj :
  Forall mentry_ok m -> ser_memo m = Some mj ->
  exists d, mj = VDict d /\ deser_memo d = Some (tbl_of m) /\
            forall n, tbl_get (Z.of_nat n) (tbl_of m) = nth_error m n.
Proof.
  unfold ser_memo. intros Hok H. destruct (ser_memo_from 0 m) as [d|] eqn:E; [|discriminate].
  inversion H; subst. exists d. split; [reflexivity|]. split; [apply (memo_from_roundtrip m 0 d Hok E)|].
  apply tbl_get_of.
Qed.

(* ------------------------------------------------------------------ memo references *)
Lemma sym_keyeqb_refl s : sym_keyeqb s s = true.
Proof. destruct s; cbn; apply String.eqb_refl. Qed.
Lemma list_eqb_refl {A} (e : A -> A -> bool) l : (forall x, e x x = true) -> list_eqb e l l = true.
Proof. intros H. induction l; cbn; [reflexivity|]. rewrite H, IHl. reflexivity. Qed.
Lemma mentry_keyeqb_refl e : mentry_keyeqb e e = true.
Proof.
  destruct e as [t|r]; cbn; [apply String.eqb_refl|].
  rewrite sym_keyeqb_refl, (list_eqb_refl _ _ sym_keyeqb_refl). reflexivity.
Qed.

Section Refs.
  (* U: the memoised objects of the instance being saved.  Python keys the memo by Rule.__eq__ / object identity;
     inside one instance two objects with the same key are the same object. *)
  Variable U : list mentry.
  Hypothesis U_unique : forall a b, In a U -> In b U -> mentry_keyeqb a b = true -> a = b.

  Lemma ser_mentry_ok e m v m' :
    In e U -> incl m U -> ser_mentry e m = Some (v, m') ->
    incl m' U /\ ext m m' /\ exists n, v = VRef n /\ forall mf, ext m' mf -> nth_error mf n = Some e.
  Proof.
    intros He Hm H. unfold ser_mentry in H.
    assert (Hc : mem_str (mentry_cls e) memo_types = true) by (destruct e; reflexivity).
    rewrite Hc in H. unfold ser_memoized in H.
    destruct (enum_get mentry_keyeqb m e) as [n m1] eqn:G. inversion H; subst; clear H.
    destruct (enum_get_spec mentry_keyeqb e m n m' (mentry_keyeqb_refl e) G) as (Hext & y & Hn & Hk & Hy).
    assert (Hy' : y = e).
    { destruct Hy as [Hy| ->]; [|reflexivity]. symmetry. apply U_unique; auto. }
    subst y. split; [|split].
    - destruct Hext as [-> | ->]; [exact Hm|]. apply incl_app; [exact Hm|]. intros z [<-|[]]. exact He.
    - destruct Hext as [-> | ->]; [apply ext_refl|]. exists [e]. reflexivity.
    - exists n. split; [reflexivity|]. intros mf Hmf. apply (ext_nth _ _ _ _ Hmf Hn).
  Qed.
  Lemma ser_mentry_total e m : exists v m', ser_mentry e m = Some (v, m').
  Proof.
    unfold ser_mentry. assert (Hc : mem_str (mentry_cls e) memo_types = true) by (destruct e; reflexivity).
    rewrite Hc. unfold ser_memoized. destruct (enum_get mentry_keyeqb m e). eexists; eexists; reflexivity.
  Qed.

  Lemma deser_ref_VRef mf n e : nth_error mf n = Some e -> deser_ref (tbl_of mf) (VRef n) = Some e.
  Proof. intros H. unfold deser_ref, VRef. cbn. rewrite tbl_get_of. exact H. Qed.

  Lemma rule_ref_ok r m v m' :
    In (MRule r) U -> incl m U -> ser_mentry (MRule r) m = Some (v, m') ->
    incl m' U /\ ext m m' /\ forall mf, ext m' mf -> deser_rule (tbl_of mf) v = Some r.
  Proof.
    intros Hr Hm H. destruct (ser_mentry_ok _ _ _ _ Hr Hm H) as (Hi & He & n & -> & Hn).
    split; [exact Hi|]. split; [exact He|]. intros mf Hmf.
    unfold deser_rule. change (dhas REF_KEY [(VStr REF_KEY, VInt (Z.of_nat n))]) with true. cbv iota.
    change (VDict [(VStr REF_KEY, VInt (Z.of_nat n))]) with (VRef n).
    rewrite (deser_ref_VRef _ _ _ (Hn mf Hmf)). reflexivity.
  Qed.
  Lemma term_ref_ok t m v m' :
    In (MTerm t) U -> incl m U -> ser_mentry (MTerm t) m = Some (v, m') ->
    incl m' U /\ ext m m' /\ forall mf, ext m' mf -> deser_termdef (tbl_of mf) v = Some t.
  Proof.
    intros Hr Hm H. destruct (ser_mentry_ok _ _ _ _ Hr Hm H) as (Hi & He & n & -> & Hn).
    split; [exact Hi|]. split; [exact He|]. intros mf Hmf.
    unfold deser_termdef. change (dhas TYPE_KEY [(VStr REF_KEY, VInt (Z.of_nat n))]) with false. cbv iota.
    change (VDict [(VStr REF_KEY, VInt (Z.of_nat n))]) with (VRef n).
    rewrite (deser_ref_VRef _ _ _ (Hn mf Hmf)). reflexivity.
  Qed.

  Lemma ser_list_m_ok {A} (f : A -> SM value) (D : memo_tbl -> value -> option A) (Pin : A -> Prop) :
    (forall x m v m', Pin x -> incl m U -> f x m = Some (v, m') ->
       incl m' U /\ ext m m' /\ forall mf, ext m' mf -> D (tbl_of mf) v = Some x) ->
    forall l m vs m', Forall Pin l -> incl m U -> ser_list_m f l m = Some (vs, m') ->
    incl m' U /\ ext m m' /\ forall mf, ext m' mf -> omap (D (tbl_of mf)) vs = Some l.
  Proof.
    intros Helem. induction l as [|x r IH]; cbn; intros m vs m' Hl Hm H.
    - inversion H; subst. split; [exact Hm|]. split; [apply ext_refl|]. reflexivity.
    - inversion Hl as [|? ? Hx Hr]; subst.
      destruct (f x m) as [[v m1]|] eqn:E; [|discriminate].
      destruct (ser_list_m f r m1) as [[vs1 m2]|] eqn:F; [|discriminate].
      inversion H; subst; clear H.
      destruct (Helem _ _ _ _ Hx Hm E) as (Hi1 & He1 & Hd1).
      destruct (IH _ _ _ Hr Hi1 F) as (Hi2 & He2 & Hd2).
      split; [exact Hi2|]. split; [apply (ext_trans _ _ _ He1 He2)|].
      intros mf Hmf. cbn. rewrite (Hd1 mf (ext_trans _ _ _ He2 Hmf)), (Hd2 mf Hmf). reflexivity.
  Qed.

  Lemma ser_rules_ok l m v m' :
    Forall (fun r => In (MRule r) U) l -> incl m U -> ser_mlist MRule l m = Some (v, m') ->
    incl m' U /\ ext m m' /\ exists vs, v = VList vs /\
      forall mf, ext m' mf -> omap (deser_rule (tbl_of mf)) vs = Some l.
  Proof.
    intros Hl Hm H. unfold ser_mlist in H.
    destruct (ser_list_m (fun x => ser_mentry (MRule x)) l m) as [[vs m1]|] eqn:E; [|discriminate].
    inversion H; subst; clear H.
    destruct (ser_list_m_ok _ deser_rule _ rule_ref_ok l m vs m' Hl Hm E) as (Hi & He & Hd).
    split; [exact Hi|]. split; [exact He|]. exists vs. split; [reflexivity|exact Hd].
  Qed.
  Lemma ser_terms_ok l m v m' :
    Forall (fun t => In (MTerm t) U) l -> incl m U -> ser_mlist MTerm l m = Some (v, m') ->
    incl m' U /\ ext m m' /\ exists vs, v = VList vs /\
      forall mf, ext m' mf -> omap (deser_termdef (tbl_of mf)) vs = Some l.
  Proof.
    intros Hl Hm H. unfold ser_mlist in H.
    destruct (ser_list_m (fun x => ser_mentry (MTerm x)) l m) as [[vs m1]|] eqn:E; [|discriminate].
    inversion H; subst; clear H.
    destruct (ser_list_m_ok _ deser_termdef _ term_ref_ok l m vs m' Hl Hm E) as (Hi & He & Hd).
    split; [exact Hi|]. split; [exact He|]. exists vs. split; [reflexivity|exact Hd].
  Qed.
  Lemma ser_mlist_total {A} (inj : A -> mentry) l : forall m, exists v m', ser_mlist inj l m = Some (v, m').
  Proof.
    unfold ser_mlist. induction l as [|x r IH]; cbn; intros m; [eexists; eexists; reflexivity|].
    destruct (ser_mentry_total (inj x) m) as (v & m1 & ->).
    destruct (IH m1) as (v2 & m2 & H2).
    destruct (ser_list_m (fun x0 : A => ser_mentry (inj x0)) r m1) as [[vs m3]|]; [|discriminate].
    eexists; eexists; reflexivity.
  Qed.

  (* ---------------------------------------------------------------- ParseTableBase *)
  Definition act_in (a : action) : Prop := match a with Reduce r => In (MRule r) U | Shift _ => True end.
  Definition acts_in (acts : list (string * action)) : Prop := Forall (fun ta => act_in (snd ta)) acts.

  (* Shift / Reduce tags are preserved *)
  Lemma ser_action_ok a m v m' :
    act_in a -> incl m U -> ser_action a m = Some (v, m') ->
    incl m' U /\ ext m m' /\ forall mf, ext m' mf -> deser_action (tbl_of mf) v = Some a.
  Proof.
    destruct a as [s|r]; cbn [act_in ser_action]; intros Ha Hm H.
    - inversion H; subst; clear H. split; [exact Hm|]. split; [apply ext_refl|]. intros mf _. reflexivity.
    - destruct (ser_mentry (MRule r) m) as [[rv m1]|] eqn:E; [|discriminate]. inversion H; subst; clear H.
      destruct (rule_ref_ok _ _ _ _ Ha Hm E) as (Hi & He & Hd).
      split; [exact Hi|]. split; [exact He|]. intros mf Hmf.
      unfold deser_action. change (Z.eqb reduce_tag_ser reduce_tag_deser) with true. cbv iota.
      rewrite (Hd mf Hmf). reflexivity.
  Qed.

  Lemma enum_get_str tk tok i tk1 :
    enum_get String.eqb tk tok = (i, tk1) -> ext tk tk1 /\ nth_error tk1 i = Some tok.
  Proof.
    intros G. destruct (enum_get_spec String.eqb tok tk i tk1 (String.eqb_refl tok) G) as (Hext & y & Hn & Hk & _).
    apply String.eqb_eq in Hk. subst y. split; [|exact Hn].
    destruct Hext as [-> | ->]; [apply ext_refl|]. exists [tok]. reflexivity.
  Qed.

  Lemma ser_actions_ok acts : forall tk m d tk' m',
    acts_in acts -> incl m U -> ser_actions acts tk m = Some ((d, tk'), m') ->
    incl m' U /\ ext m m' /\ ext tk tk' /\
    forall mf tkf, ext m' mf -> ext tk' tkf ->
      deser_actions (tbl_of mf) (enum_reversed VStr tkf) d = Some acts.
  Proof.
    induction acts as [|[tok a] r IH]; cbn [ser_actions]; intros tk m d tk' m' Ha Hm H.
    - inversion H; subst. split; [exact Hm|]. split; [apply ext_refl|]. split; [apply ext_refl|]. reflexivity.
    - inversion Ha as [|? ? Ha1 Ha2]; subst. cbn in Ha1.
      destruct (enum_get String.eqb tk tok) as [i tk1] eqn:G.
      destruct (ser_action a m) as [[v m1]|] eqn:E; [|discriminate].
      destruct (ser_actions r tk1 m1) as [[[d1 tk2] m2]|] eqn:F; [|discriminate].
      inversion H; subst; clear H.
      destruct (enum_get_str _ _ _ _ G) as (Ht1 & Hn).
      destruct (ser_action_ok _ _ _ _ Ha1 Hm E) as (Hi1 & He1 & Hd1).
      destruct (IH _ _ _ _ _ Ha2 Hi1 F) as (Hi2 & He2 & Ht2 & Hd2).
      split; [exact Hi2|]. split; [apply (ext_trans _ _ _ He1 He2)|]. split; [apply (ext_trans _ _ _ Ht1 Ht2)|].
      intros mf tkf Hmf Htkf. cbn [deser_actions].
      rewrite (dgeti_reversed VStr tkf i tok (ext_nth _ _ _ _ (ext_trans _ _ _ Ht2 Htkf) Hn)). cbn [obind as_str].
      rewrite (Hd1 mf (ext_trans _ _ _ He2 Hmf)), (Hd2 mf tkf Hmf Htkf). reflexivity.
  Qed.

  Lemma ser_states_ok sts : forall tk m d tk' m',
    Forall (fun sa => acts_in (snd sa)) sts -> incl m U -> ser_states sts tk m = Some ((d, tk'), m') ->
    incl m' U /\ ext m m' /\ ext tk tk' /\
    forall mf tkf, ext m' mf -> ext tk' tkf ->
      deser_states (tbl_of mf) (enum_reversed VStr tkf) d = Some sts.
  Proof.
    induction sts as [|[s acts] r IH]; cbn [ser_states]; intros tk m d tk' m' Ha Hm H.
    - inversion H; subst. split; [exact Hm|]. split; [apply ext_refl|]. split; [apply ext_refl|]. reflexivity.
    - inversion Ha as [|? ? Ha1 Ha2]; subst. cbn in Ha1.
      destruct (ser_actions acts tk m) as [[[d1 tk1] m1]|] eqn:E; [|discriminate].
      destruct (ser_states r tk1 m1) as [[[d2 tk2] m2]|] eqn:F; [|discriminate].
      inversion H; subst; clear H.
      destruct (ser_actions_ok _ _ _ _ _ _ Ha1 Hm E) as (Hi1 & He1 & Ht1 & Hd1).
      destruct (IH _ _ _ _ _ Ha2 Hi1 F) as (Hi2 & He2 & Ht2 & Hd2).
      split; [exact Hi2|]. split; [apply (ext_trans _ _ _ He1 He2)|]. split; [apply (ext_trans _ _ _ Ht1 Ht2)|].
      intros mf tkf Hmf Htkf. cbn [deser_states].
      rewrite (Hd1 mf tkf (ext_trans _ _ _ He2 Hmf) (ext_trans _ _ _ Ht2 Htkf)), (Hd2 mf tkf Hmf Htkf). reflexivity.
  Qed.

  Lemma name_map_roundtrip l : deser_name_map (map (fun kv => (VStr (fst kv), VInt (snd kv))) l) = Some l.
  Proof. induction l as [|[k s] r IH]; cbn; [reflexivity|]. rewrite IH. reflexivity. Qed.

  Definition table_in (t : table) : Prop := Forall (fun sa => acts_in (snd sa)) (t_states t).

  Lemma ser_table_ok t m v m' :
    table_in t -> incl m U -> ser_table t m = Some (v, m') ->
    incl m' U /\ ext m m' /\ forall mf, ext m' mf -> deser_table (tbl_of mf) v = Some t.
  Proof.
    destruct t as [sts st en]. unfold table_in, ser_table. cbn [t_states t_start t_end]. intros Ht Hm H.
    destruct (ser_states sts [] m) as [[[d tk] m1]|] eqn:E; [|discriminate]. inversion H; subst; clear H.
    destruct (ser_states_ok _ _ _ _ _ _ Ht Hm E) as (Hi & He & _ & Hd).
    split; [exact Hi|]. split; [exact He|]. intros mf Hmf.
    unfold deser_table, ser_name_map. cbn.
    rewrite (Hd mf tk Hmf (ext_refl _)). cbn. rewrite !name_map_roundtrip. reflexivity.
  Qed.

  (* ---------------------------------------------------------------- LexerConf / ParserConf / ParsingFrontend *)
  Lemma option_map_plain (x : option value) : option_map (apply_kind RPlain) x = x.
  Proof. destruct x; reflexivity. Qed.

  (* every option-derived attribute of the LexerConf is re-supplied on load exactly as the constructor call in
     Lark.__init__ computes it (fields_restored, LexerConf part, used through computation) *)
  Lemma ser_lexer_conf_ok c m v m' o :
    Forall (fun t => In (MTerm t) U) (lc_terminals c) -> incl m U ->
    ser_lexer_conf c m = Some (v, m') ->
    incl m' U /\ ext m m' /\ forall mf, ext m' mf ->
      deser_lexer_conf (tbl_of mf) o v =
      mk_lexer_conf (lc_terminals c) (lc_ignore c) (lc_lexer_type c) (fun x => lc_attr_at_build x o).
  Proof.
    destruct c as [terms ign gf ub lt cb rm pl]. cbn [lc_terminals lc_ignore lc_lexer_type]. intros Ht Hm H.
    unfold ser_lexer_conf, ser_obj_m in H. cbn in H.
    destruct (ser_mlist MTerm terms m) as [[tv m1]|] eqn:E; [|discriminate]. inversion H; subst; clear H.
    destruct (ser_terms_ok _ _ _ _ Ht Hm E) as (Hi & He & vs & -> & Hd).
    split; [exact Hi|]. split; [exact He|]. intros mf Hmf.
    unfold deser_lexer_conf. cbn. rewrite (Hd mf Hmf). cbn. rewrite omap_as_str. cbn.
    unfold mk_lexer_conf. cbn. rewrite !option_map_plain. reflexivity.
  Qed.

  Lemma ser_parser_conf_ok c m v m' :
    Forall (fun r => In (MRule r) U) (pc_rules c) -> incl m U ->
    ser_parser_conf c m = Some (v, m') ->
    incl m' U /\ ext m m' /\ forall mf, ext m' mf -> deser_parser_conf (tbl_of mf) v = Some c.
  Proof.
    destruct c as [rules st pt]. cbn [pc_rules]. intros Hr Hm H.
    unfold ser_parser_conf, ser_obj_m in H. cbn in H.
    destruct (ser_mlist MRule rules m) as [[rv m1]|] eqn:E; [|discriminate]. inversion H; subst; clear H.
    destruct (ser_rules_ok _ _ _ _ Hr Hm E) as (Hi & He & vs & -> & Hd).
    split; [exact Hi|]. split; [exact He|]. intros mf Hmf.
    unfold deser_parser_conf. cbn. rewrite (Hd mf Hmf). cbn. rewrite omap_as_str. reflexivity.
  Qed.

  Definition fe_in (fe : frontend) : Prop :=
    Forall (fun t => In (MTerm t) U) (lc_terminals (fe_lexer_conf fe)) /\
    Forall (fun r => In (MRule r) U) (pc_rules (fe_parser_conf fe)) /\
    table_in (fe_parser fe).
  Definition inst_in (i : lark_inst) : Prop :=
    fe_in (li_parser i) /\ Forall (fun r => In (MRule r) U) (li_rules i).

  Definition fe_restored (mf : memo) (fe : frontend) (lcv pcv tv : value) : Prop :=
    (forall o, deser_lexer_conf (tbl_of mf) o lcv =
               mk_lexer_conf (lc_terminals (fe_lexer_conf fe)) (lc_ignore (fe_lexer_conf fe))
                             (lc_lexer_type (fe_lexer_conf fe)) (fun x => lc_attr_at_build x o)) /\
    deser_parser_conf (tbl_of mf) pcv = Some (fe_parser_conf fe) /\
    deser_table (tbl_of mf) tv = Some (fe_parser fe).

  Lemma ser_frontend_ok fe m v m' :
    fe_in fe -> incl m U -> ser_frontend fe m = Some (v, m') ->
    incl m' U /\ ext m m' /\ exists lcv pcv tv,
      v = VObj "ParsingFrontend" [("lexer_conf", lcv); ("parser_conf", pcv); ("parser", tv)] /\
      forall mf, ext m' mf -> fe_restored mf fe lcv pcv tv.
  Proof.
    destruct fe as [lc pc tb]. unfold fe_in, fe_restored. cbn [fe_lexer_conf fe_parser_conf fe_parser].
    intros (Ht & Hr & Htb) Hm H.
    unfold ser_frontend, ser_obj_m in H. cbn in H.
    destruct (ser_lexer_conf lc m) as [[lcv m1]|] eqn:E1; [|discriminate].
    destruct (ser_parser_conf pc m1) as [[pcv m2]|] eqn:E2; [|discriminate].
    destruct (ser_table tb m2) as [[tv m3]|] eqn:E3; [|discriminate].
    inversion H; subst; clear H.
    assert (L1 := fun o => ser_lexer_conf_ok lc m lcv m1 o Ht Hm E1).
    destruct (L1 []) as (Hi1 & He1 & _).
    destruct (ser_parser_conf_ok _ _ _ _ Hr Hi1 E2) as (Hi2 & He2 & Hd2).
    destruct (ser_table_ok _ _ _ _ Htb Hi2 E3) as (Hi3 & He3 & Hd3).
    split; [exact Hi3|]. split; [apply (ext_trans _ _ _ He1 (ext_trans _ _ _ He2 He3))|].
    exists lcv, pcv, tv. split; [reflexivity|]. intros mf Hmf. split; [|split].
    - intros o. destruct (L1 o) as (_ & _ & Hd1).
      apply Hd1. apply (ext_trans _ _ _ He2 (ext_trans _ _ _ He3 Hmf)).
    - apply Hd2. apply (ext_trans _ _ _ He3 Hmf).
    - apply Hd3. exact Hmf.
  Qed.

  Lemma ser_mentry_grows e m v m' : ser_mentry e m = Some (v, m') -> ext m m' /\ m' <> [].
  Proof.
    unfold ser_mentry. assert (Hc : mem_str (mentry_cls e) memo_types = true) by (destruct e; reflexivity).
    rewrite Hc. unfold ser_memoized, enum_get. destruct (find_index mentry_keyeqb e m) eqn:G; intros H; inversion H; subst.
    - split; [apply ext_refl|]. destruct (find_index_Some _ _ _ _ G) as (y & _ & _ & Hy). intros ->. contradiction.
    - split; [eexists; reflexivity|]. intros K. apply app_eq_nil in K. destruct K; discriminate.
  Qed.
  Lemma ser_list_m_ext {A} (inj : A -> mentry) l : forall m vs m',
    ser_list_m (fun x => ser_mentry (inj x)) l m = Some (vs, m') -> ext m m'.
  Proof.
    induction l as [|y r IH]; cbn; intros m vs m' F.
    - inversion F; subst. apply ext_refl.
    - destruct (ser_mentry (inj y) m) as [[v2 m2]|] eqn:E; [|discriminate].
      destruct (ser_list_m (fun x0 => ser_mentry (inj x0)) r m2) as [[vs2 m3]|] eqn:G; [|discriminate].
      inversion F; subst. apply (ext_trans _ m2); [apply (ser_mentry_grows _ _ _ _ E)|apply (IH _ _ _ G)].
  Qed.
  Lemma ser_mlist_nonempty {A} (inj : A -> mentry) l m v m' :
    l <> [] -> ser_mlist inj l m = Some (v, m') -> m' <> [].
  Proof.
    destruct l as [|x r]; [congruence|]. intros _. unfold ser_mlist. cbn.
    destruct (ser_mentry (inj x) m) as [[v1 m1]|] eqn:E; [|discriminate].
    destruct (ser_list_m (fun x0 => ser_mentry (inj x0)) r m1) as [[vs m2]|] eqn:F; [|discriminate].
    intros H; inversion H; subst; clear H.
    destruct (ser_mentry_grows _ _ _ _ E) as (_ & N1).
    destruct (ser_list_m_ext _ _ _ _ _ F) as [s ->]. intros K. apply app_eq_nil in K. destruct K. contradiction.
  Qed.

  Lemma ser_lark_ok i m data m' :
    inst_in i -> incl m U -> ser_lark i m = Some (data, m') ->
    incl m' U /\ ext m m' /\ (li_rules i <> [] -> m' <> []) /\ exists lcv pcv tv rvs,
      data = VObj "Lark" [("parser", VObj "ParsingFrontend" [("lexer_conf", lcv); ("parser_conf", pcv); ("parser", tv)]);
                          ("rules", VList rvs); ("options", ser_options (li_options i))] /\
      forall mf, ext m' mf ->
        fe_restored mf (li_parser i) lcv pcv tv /\ omap (deser_rule (tbl_of mf)) rvs = Some (li_rules i).
  Proof.
    destruct i as [fe rules o]. unfold inst_in. cbn [li_parser li_rules li_options].
    intros (Hfe & Hrs) Hm H.
    unfold ser_lark, ser_obj_m in H. cbn in H.
    destruct (ser_frontend fe m) as [[fv m1]|] eqn:E1; [|discriminate].
    destruct (ser_mlist MRule rules m1) as [[rv m2]|] eqn:E2; [|discriminate].
    inversion H; subst; clear H.
    destruct (ser_frontend_ok _ _ _ _ Hfe Hm E1) as (Hi1 & He1 & lcv & pcv & tv & -> & Hd1).
    destruct (ser_rules_ok _ _ _ _ Hrs Hi1 E2) as (Hi2 & He2 & rvs & -> & Hd2).
    split; [exact Hi2|]. split; [apply (ext_trans _ _ _ He1 He2)|].
    split; [intros Hne; apply (ser_mlist_nonempty _ _ _ _ _ Hne E2)|].
    exists lcv, pcv, tv, rvs. split; [reflexivity|]. intros mf Hmf. split.
    - apply Hd1. apply (ext_trans _ _ _ He2 Hmf).
    - apply Hd2. exact Hmf.
  Qed.
End Refs.

(* ------------------------------------------------------------------ serialisation never fails *)
Lemma ser_action_total a m : exists v m', ser_action a m = Some (v, m').
Proof.
  destruct a as [s|r]; cbn [ser_action]; [eexists; eexists; reflexivity|].
  destruct (ser_mentry_total (MRule r) m) as (v & m' & ->). eexists; eexists; reflexivity.
Qed.
Lemma ser_actions_total acts : forall tk m, exists d tk' m', ser_actions acts tk m = Some ((d, tk'), m').
Proof.
  induction acts as [|[tok a] r IH]; cbn [ser_actions]; intros tk m; [do 3 eexists; reflexivity|].
  destruct (enum_get String.eqb tk tok) as [i tk1].
  destruct (ser_action_total a m) as (v & m1 & ->).
  destruct (IH tk1 m1) as (d & tk2 & m2 & ->). do 3 eexists; reflexivity.
Qed.
Lemma ser_states_total sts : forall tk m, exists d tk' m', ser_states sts tk m = Some ((d, tk'), m').
Proof.
  induction sts as [|[s acts] r IH]; cbn [ser_states]; intros tk m; [do 3 eexists; reflexivity|].
  destruct (ser_actions_total acts tk m) as (d & tk1 & m1 & ->).
  destruct (IH tk1 m1) as (d2 & tk2 & m2 & ->). do 3 eexists; reflexivity.
Qed.
Lemma ser_table_total t m : exists v m', ser_table t m = Some (v, m').
Proof.
  unfold ser_table. destruct (ser_states_total (t_states t) [] m) as (d & tk & m' & ->).
  eexists; eexists; reflexivity.
Qed.
Lemma ser_lark_total i m : exists v m', ser_lark i m = Some (v, m').
Proof.
  destruct i as [[lc pc tb] rules o]. unfold ser_lark, ser_obj_m. cbn.
  unfold ser_frontend, ser_obj_m. cbn. unfold ser_lexer_conf, ser_obj_m. cbn.
  destruct (ser_mlist_total MTerm (lc_terminals lc) m) as (v1 & m1 & ->). cbn.
  unfold ser_parser_conf, ser_obj_m. cbn.
  destruct (ser_mlist_total MRule (pc_rules pc) m1) as (v2 & m2 & ->). cbn.
  destruct (ser_table_total tb m2) as (v3 & m3 & ->).
  destruct (ser_mlist_total MRule rules m3) as (v4 & m4 & ->).
  eexists; eexists; reflexivity.
Qed.

(* ------------------------------------------------------------------ the whole instance *)
Definition wf_inst (i : lark_inst) : Prop :=
  (* memo keys identify objects (Rule.__eq__ on (origin, expansion); TerminalDef names are unique) *)
  (forall a b, In a (entries i) -> In b (entries i) -> mentry_keyeqb a b = true -> a = b) /\
  (* freshly built patterns keep their flags in a frozenset *)
  Forall termdef_ok (lc_terminals (fe_lexer_conf (li_parser i))) /\
  li_rules i <> [].

Lemma actions_rules_in acts : forall U, (forall r, In r (actions_rules acts) -> In (MRule r) U) -> acts_in U acts.
Proof.
  induction acts as [|[tok a] r IH]; intros U H; [constructor|].
  constructor.
  - destruct a as [s|rl]; cbn; [exact I|]. apply H. cbn. auto.
  - apply IH. intros x Hx. apply H. destruct a; cbn; auto.
Qed.
Lemma inst_in_entries i : inst_in (entries i) i.
Proof.
  unfold inst_in, fe_in, entries. repeat split.
  - apply Forall_forall. intros t Ht. apply in_or_app. left. apply in_map. exact Ht.
  - apply Forall_forall. intros r Hr. apply in_or_app. right. apply in_or_app. left. apply in_map. exact Hr.
  - unfold table_in. apply Forall_forall. intros [s acts] Hs. cbn. apply actions_rules_in. intros r Hr.
    apply in_or_app. right. apply in_or_app. right. apply in_or_app. left. apply in_map.
    unfold table_rules. apply in_flat_map. exists (s, acts). auto.
  - apply Forall_forall. intros r Hr. do 3 (apply in_or_app; right). apply in_map. exact Hr.
Qed.
Lemma entries_ok i : wf_inst i -> forall e, In e (entries i) -> mentry_ok e.
Proof.
  intros (_ & Ht & _) e He. destruct e as [t|r]; cbn; [|exact I].
  unfold entries in He. apply in_app_or in He. destruct He as [He|He].
  - apply in_map_iff in He. destruct He as (t' & Heq & Hin). inversion Heq; subst.
    rewrite Forall_forall in Ht. apply Ht. exact Hin.
  - repeat (apply in_app_or in He; destruct He as [He|He]);
      apply in_map_iff in He; destruct He as (x & Heq & _); discriminate.
Qed.

Lemma memo_serialize_ok i :
  wf_inst i ->
  exists lcv pcv tv rvs d mf,
    memo_serialize i =
      Some (VObj "Lark" [("parser", VObj "ParsingFrontend" [("lexer_conf", lcv); ("parser_conf", pcv); ("parser", tv)]);
                         ("rules", VList rvs); ("options", ser_options (li_options i))], VDict d) /\
    d <> [] /\ deser_memo d = Some (tbl_of mf) /\
    fe_restored mf (li_parser i) lcv pcv tv /\ omap (deser_rule (tbl_of mf)) rvs = Some (li_rules i).
Proof.
  intros Hwf. pose proof Hwf as (Huniq & Hterms & Hne).
  unfold memo_serialize.
  destruct (ser_lark_total i []) as (data & m & E). rewrite E.
  destruct (ser_lark_ok (entries i) Huniq i [] data m (inst_in_entries i) (incl_nil_l _) E)
    as (Hi & _ & Hnm & lcv & pcv & tv & rvs & -> & Hd).
  assert (Hok : Forall mentry_ok m).
  { apply Forall_forall. intros e He. apply (entries_ok i Hwf). apply Hi. exact He. }
  unfold ser_memo. destruct (memo_from_total m 0) as (d & Ed). rewrite Ed. cbn.
  exists lcv, pcv, tv, rvs, d, m. split; [reflexivity|].
  destruct (Hd m (ext_refl m)) as (Hfe & Hr).
  split; [|split; [apply (memo_from_roundtrip m 0 d Hok Ed)|split; assumption]].
  specialize (Hnm Hne). destruct m as [|e r]; [congruence|]. cbn in Ed.
  destruct (ser_mentry_full e); [|discriminate]. destruct (ser_memo_from 1 r); [|discriminate].
  inversion Ed. discriminate.
Qed.

Lemma to_options_ser o : to_options (map (fun kv => (VStr (fst kv), snd kv)) o) = Some o.
Proof. induction o as [|[k v] r IH]; cbn; [reflexivity|]. rewrite IH. reflexivity. Qed.
Lemma drop_options_nil o : drop_options [] o = o.
Proof. unfold drop_options. induction o as [|kv r IH]; cbn; [reflexivity|]. f_equal. exact IH. Qed.

Lemma mk_lexer_conf_fields t ig lt f lc :
  mk_lexer_conf t ig lt f = Some lc -> lc_terminals lc = t /\ lc_ignore lc = ig /\ lc_lexer_type lc = lt.
Proof.
  unfold mk_lexer_conf. intros H.
  destruct (obind (f "g_regex_flags") as_int); [|discriminate]. cbn in H.
  destruct (obind (f "use_bytes") as_bool); [|discriminate]. cbn in H.
  destruct (f "callbacks"); [|discriminate]. cbn in H.
  destruct (obind (f "re_module") as_bool); [|discriminate]. cbn in H.
  destruct (f "postlex"); [|discriminate]. cbn in H. inversion H; subst. auto.
Qed.

Theorem load_save g O i excl kw :
  build g O = Some i -> wf_inst i ->
  exists dm, save i excl = Some dm /\
    load dm kw = if kw_rejected kw then None
                 else obind (lark_options_init (aupdate (drop_options excl O) kw)) (build g).
Proof.
  intros Hb Hwf.
  destruct (memo_serialize_ok i Hwf) as (lcv & pcv & tv & rvs & d & mf & Hms & Hdne & Hmemo & Hfe & Hrules).
  unfold build in Hb.
  destruct (mk_lexer_conf (g_terminals g) (g_ignore g) (g_lexer_type g) (fun x => lc_attr_at_build x O)) as [lc|] eqn:Elc;
    [|discriminate]. cbn in Hb. inversion Hb; subst i; clear Hb.
  destruct (mk_lexer_conf_fields _ _ _ _ _ Elc) as (L1 & L2 & L3).
  cbn [li_options li_rules li_parser] in *.
  destruct Hfe as (Hlc & Hpc & Htb). cbn [fe_lexer_conf fe_parser_conf fe_parser] in *.
  rewrite L1, L2, L3 in Hlc.
  unfold save. rewrite Hms. unfold VObj at 1. cbn [map fst snd app].
  assert (Fin : forall o0,
    (if negb (truthy (VDict d)) then None else
     obind (deser_memo d) (fun t =>
     obind (Some o0) (fun o0 =>
     if kw_rejected kw then None else
     obind (lark_options_init (aupdate o0 kw)) (fun o =>
     obind (omap (deser_rule t) rvs) (fun rules =>
     obind (deser_lexer_conf t o lcv) (fun lc0 =>
     obind (deser_parser_conf t pcv) (fun pc =>
     obind (deser_table t tv) (fun tb => Some (mkLark (mkFE lc0 pc tb) rules o)))))))))
    = if kw_rejected kw then None else obind (lark_options_init (aupdate o0 kw)) (build g)).
  { intros o0. destruct d as [|kv d']; [congruence|]. cbn [truthy negb]. cbv iota.
    rewrite Hmemo. cbn [obind]. destruct (kw_rejected kw); [reflexivity|].
    destruct (lark_options_init (aupdate o0 kw)) as [o|]; [|reflexivity]. cbn [obind].
    rewrite Hrules, Hlc, Hpc, Htb. cbn [obind]. unfold build.
    destruct (mk_lexer_conf (g_terminals g) (g_ignore g) (g_lexer_type g) (fun x => lc_attr_at_build x o)); reflexivity. }
  destruct excl as [|x excl].
  - eexists. split; [reflexivity|].
    unfold load. cbn. unfold ser_options. rewrite to_options_ser, drop_options_nil. apply Fin.
  - eexists. split; [reflexivity|].
    unfold load. cbn. unfold ser_options. rewrite to_options_ser. apply Fin.
Qed.

(* ------------------------------------------------------------------ option merging *)
Lemma aget_aset k k' v o : aget k (aset k' v o) = if String.eqb k k' then Some v else aget k o.
Proof.
  induction o as [|[k2 v2] r IH]; cbn.
  - destruct (String.eqb k k'); reflexivity.
  - destruct (String.eqb_spec k' k2) as [->|N]; cbn.
    + destruct (String.eqb k k2); reflexivity.
    + destruct (String.eqb_spec k k2) as [->|N2].
      * destruct (String.eqb_spec k2 k') as [E|_]; [congruence|reflexivity].
      * exact IH.
Qed.
Lemma aget_aupdate kw : forall o k, NoDup (map fst kw) ->
  aget k (aupdate o kw) = match aget k kw with Some v => Some v | None => aget k o end.
Proof.
  unfold aupdate. induction kw as [|[k' v] r IH]; cbn; intros o k Hnd; [reflexivity|].
  inversion Hnd as [|? ? Hni Hnd']; subst. rewrite (IH _ _ Hnd'), aget_aset.
  destruct (String.eqb_spec k k') as [->|N]; [|reflexivity].
  destruct (aget k' r) eqn:E; [|reflexivity]. exfalso. apply Hni.
  clear -E. induction r as [|[k2 v2] r IH]; cbn in *; [discriminate|].
  destruct (String.eqb_spec k' k2) as [->|N]; auto.
Qed.
Lemma aget_drop excl o k : aget k (drop_options excl o) = if mem_str k excl then None else aget k o.
Proof.
  unfold drop_options. induction o as [|[k2 v2] r IH]; cbn; [destruct (mem_str k excl); reflexivity|].
  destruct (mem_str k2 excl) eqn:M; cbn.
  - rewrite IH. destruct (String.eqb_spec k k2) as [->|N]; [rewrite M|]; reflexivity.
  - destruct (String.eqb_spec k k2) as [->|N]; [rewrite M; reflexivity|exact IH].
Qed.
Lemma aget_None_notin {A} k (o : list (string * A)) : ~ In k (map fst o) -> aget k o = None.
Proof.
  induction o as [|[k2 v2] r IH]; cbn; intros H; [reflexivity|].
  destruct (String.eqb_spec k k2) as [->|N]; [exfalso; auto|]. apply IH. auto.
Qed.
Lemma mem_str_In x l : mem_str x l = true <-> In x l.
Proof.
  induction l as [|y r IH]; cbn; [split; [discriminate|contradiction]|].
  destruct (String.eqb_spec x y) as [->|N]; [split; auto|].
  rewrite IH. split; [auto|]. intros [E|H]; [congruence|exact H].
Qed.
Lemma aset_keys k v o x : In x (map fst (aset k v o)) -> x = k \/ In x (map fst o).
Proof.
  induction o as [|[k2 v2] r IH]; cbn; [intros [<-|[]]; auto|].
  destruct (String.eqb_spec k k2) as [->|N]; cbn; [intros [<-|H]; auto|].
  intros [<-|H]; [auto|]. destruct (IH H); auto.
Qed.
Lemma aupdate_keys kw : forall o x, In x (map fst (aupdate o kw)) -> In x (map fst o) \/ In x (map fst kw).
Proof.
  unfold aupdate. induction kw as [|[k v] r IH]; cbn; intros o x H; [auto|].
  destruct (IH _ _ H) as [H1|H1]; [|auto]. destruct (aset_keys _ _ _ _ H1) as [->|H2]; auto.
Qed.
Lemma norm_option_fst o nd : fst (norm_option o nd) = fst nd.
Proof. destruct nd. reflexivity. Qed.
Lemma norm_option_ext o1 o2 nd : aget (fst nd) o1 = aget (fst nd) o2 -> norm_option o1 nd = norm_option o2 nd.
Proof. destruct nd as [n d]. cbn [fst]. unfold norm_option. intros ->. reflexivity. Qed.

Definition normalized (o : options) : Prop := lark_options_init o = Some o.
Definition allowed_only (kw : options) : Prop := forall k, In k (map fst kw) -> In k load_allowed_options.

Lemma allowed_in_defaults : forall k, In k load_allowed_options -> In k (map fst option_defaults).
Proof.
  assert (H : forallb (fun k => mem_str k (map fst option_defaults)) load_allowed_options = true) by (vm_compute; reflexivity).
  rewrite forallb_forall in H. intros k Hk. apply mem_str_In. apply H. exact Hk.
Qed.
Lemma allowed_not_rejected kw : allowed_only kw -> kw_rejected kw = false.
Proof.
  intros H. unfold kw_rejected. apply not_true_is_false. intros E. apply existsb_exists in E.
  destruct E as ([k v] & Hin & Hb). cbn [fst] in Hb. apply andb_true_iff in Hb. destruct Hb as (Hb & _).
  assert (In k load_allowed_options) by (apply H; apply in_map_iff; exists (k, v); auto).
  apply mem_str_In in H0. rewrite H0 in Hb. discriminate.
Qed.

(* what LarkOptions.__init__ makes of the merged dict, key by key *)
Lemma lark_options_init_merge O excl kw :
  normalized O -> NoDup (map fst kw) -> allowed_only kw -> (forall k, In k excl -> In k load_allowed_options) ->
  lark_options_init (aupdate (drop_options excl O) kw) =
  Some (map (fun nd => norm_option (match aget (fst nd) kw with
                                    | Some v => [(fst nd, v)]
                                    | None => if mem_str (fst nd) excl then [] else O
                                    end) nd) option_defaults).
Proof.
  intros HO Hnd Hkw Hex. unfold normalized, lark_options_init in HO.
  destruct (forallb (fun kv => mem_str (fst kv) (map fst option_defaults)) O) eqn:F; [|discriminate].
  unfold lark_options_init.
  assert (G : forallb (fun kv => mem_str (fst kv) (map fst option_defaults)) (aupdate (drop_options excl O) kw) = true).
  { apply forallb_forall. intros [k v] Hin. cbn [fst]. apply mem_str_In.
    assert (Hk : In k (map fst (aupdate (drop_options excl O) kw))) by (apply in_map_iff; exists (k, v); auto).
    destruct (aupdate_keys _ _ _ Hk) as [H1|H1].
    - rewrite forallb_forall in F. apply in_map_iff in H1. destruct H1 as ([k2 v2] & <- & Hin2).
      unfold drop_options in Hin2. apply filter_In in Hin2. destruct Hin2 as (Hin2 & _).
      apply mem_str_In. apply (F (k2, v2) Hin2).
    - apply allowed_in_defaults. apply Hkw. exact H1. }
  rewrite G. f_equal. apply map_ext. intros nd. apply norm_option_ext.
  rewrite (aget_aupdate _ _ _ Hnd), aget_drop.
  destruct (aget (fst nd) kw) eqn:E; cbn; [rewrite String.eqb_refl; reflexivity|].
  destruct (mem_str (fst nd) excl); reflexivity.
Qed.

(* ------------------------------------------------------------------ property-level corollaries *)
From LV Require Import Ser.Relevant.

(* fields_restored: every attribute the behaviour reads comes back on load *)
Theorem fields_restored cls f fs :
  In (cls, fs) Relevant -> In f fs -> restored_by cls f = true.
Proof.
  assert (H : fields_restored_b = true) by (vm_compute; reflexivity).
  unfold fields_restored_b in H. rewrite forallb_forall in H.
  intros Hc Hf. specialize (H _ Hc). cbn [fst snd] in H. rewrite forallb_forall in H. apply H. exact Hf.
Qed.

Theorem options_partition k :
  In k (map fst option_defaults) ->
  (In k load_allowed_options /\ ~ In k construction_options) \/ (~ In k load_allowed_options /\ In k construction_options).
Proof.
  assert (H : options_partition_b = true) by (vm_compute; reflexivity).
  unfold options_partition_b in H. apply andb_true_iff in H. destruct H as (H & _).
  rewrite forallb_forall in H. intros Hk. specialize (H _ Hk).
  destruct (mem_str k load_allowed_options) eqn:A; destruct (mem_str k construction_options) eqn:C; try discriminate.
  - left. split; [apply mem_str_In; exact A|]. intros X. apply mem_str_In in X. congruence.
  - right. split; [|apply mem_str_In; exact C]. intros X. apply mem_str_In in X. congruence.
Qed.

(* table_roundtrip: deserialize (serialize tbl) = tbl for every parse table *)
Theorem table_roundtrip t :
  (forall a b, In a (map MRule (table_rules t)) -> In b (map MRule (table_rules t)) -> mentry_keyeqb a b = true -> a = b) ->
  exists v m, ser_table t [] = Some (v, m) /\ deser_table (tbl_of m) v = Some t.
Proof.
  intros Hu. destruct (ser_table_total t []) as (v & m & E). exists v, m. split; [exact E|].
  assert (Hin : table_in (map MRule (table_rules t)) t).
  { unfold table_in. apply Forall_forall. intros [s acts] Hs. cbn. apply actions_rules_in. intros r Hr.
    apply in_map. unfold table_rules. apply in_flat_map. exists (s, acts). auto. }
  destruct (ser_table_ok _ Hu t [] v m Hin (incl_nil_l _) E) as (_ & _ & Hd). apply Hd. apply ext_refl.
Qed.

(* the Enumerator is a bijection between the items met and the numbers handed out *)
Lemma nodup_snoc (e : list string) x : NoDup e -> ~ In x e -> NoDup (e ++ [x]).
Proof.
  induction e as [|y r IH]; cbn; intros Hn Hx; [constructor; [auto|constructor]|].
  inversion Hn; subst. constructor.
  - intros K. apply in_app_or in K. destruct K as [K|[K|[]]]; [auto|]. subst. apply Hx. auto.
  - apply IH; auto.
Qed.
Lemma enum_get_nodup e x n e' : NoDup e -> enum_get String.eqb e x = (n, e') -> NoDup e' /\ nth_error e' n = Some x.
Proof.
  intros Hn H. split.
  - revert H. unfold enum_get. destruct (find_index String.eqb x e) eqn:F; intros H; inversion H; subst; [exact Hn|].
    apply nodup_snoc; [exact Hn|]. intros K. pose proof (find_index_None _ _ _ F _ K) as E.
    rewrite String.eqb_refl in E. discriminate.
  - apply (enum_get_str _ _ _ _ H).
Qed.
Lemma ser_actions_tokens_nodup acts : forall tk m d tk' m',
  NoDup tk -> ser_actions acts tk m = Some ((d, tk'), m') -> NoDup tk'.
Proof.
  induction acts as [|[tok a] r IH]; cbn [ser_actions]; intros tk m d tk' m' Hn H.
  - inversion H; subst. exact Hn.
  - destruct (enum_get String.eqb tk tok) as [i tk1] eqn:G.
    destruct (ser_action a m) as [[v m1]|]; [|discriminate].
    destruct (ser_actions r tk1 m1) as [[[d1 tk2] m2]|] eqn:F; [|discriminate]. inversion H; subst.
    apply (IH _ _ _ _ _ (proj1 (enum_get_nodup _ _ _ _ Hn G)) F).
Qed.
Lemma ser_states_tokens_nodup sts : forall tk m d tk' m',
  NoDup tk -> ser_states sts tk m = Some ((d, tk'), m') -> NoDup tk'.
Proof.
  induction sts as [|[s acts] r IH]; cbn [ser_states]; intros tk m d tk' m' Hn H.
  - inversion H; subst. exact Hn.
  - destruct (ser_actions acts tk m) as [[[d1 tk1] m1]|] eqn:E; [|discriminate].
    destruct (ser_states r tk1 m1) as [[[d2 tk2] m2]|] eqn:F; [|discriminate]. inversion H; subst.
    apply (IH _ _ _ _ _ (ser_actions_tokens_nodup _ _ _ _ _ _ Hn E) F).
Qed.
(* the 'tokens' dict of a serialised table never maps two numbers to the same token *)
Theorem token_numbering_injective t m d tk m' i j x :
  ser_states (t_states t) [] m = Some ((d, tk), m') ->
  nth_error tk i = Some x -> nth_error tk j = Some x -> i = j.
Proof.
  intros H Hi Hj. pose proof (ser_states_tokens_nodup _ _ _ _ _ _ (NoDup_nil _) H) as Hn.
  rewrite NoDup_nth_error in Hn. apply Hn; [apply nth_error_Some; rewrite Hi; discriminate|congruence].
Qed.

Lemma aupdate_nil o : aupdate o [] = o.
Proof. reflexivity. Qed.

(* C11_saveload *)
Theorem saveload_roundtrip g O i :
  build g O = Some i -> wf_inst i -> normalized O ->
  exists dm, save i [] = Some dm /\ load dm [] = Some i.
Proof.
  intros Hb Hwf HO. destruct (load_save g O i [] [] Hb Hwf) as (dm & Hs & Hl).
  exists dm. split; [exact Hs|]. rewrite Hl. cbn [kw_rejected existsb]. rewrite drop_options_nil, aupdate_nil.
  rewrite HO. exact Hb.
Qed.

(* the cache path: saved without the load-allowed options, which are re-supplied as keyword arguments *)
Theorem cache_roundtrip g O i kw :
  build g O = Some i -> wf_inst i -> normalized O -> NoDup (map fst kw) -> allowed_only kw ->
  (* each load-allowed option of the running instance is what LarkOptions makes of the keyword arguments *)
  (forall k d, In (k, d) option_defaults -> In k load_allowed_options ->
               norm_option (match aget k kw with Some v => [(k, v)] | None => [] end) (k, d) = norm_option O (k, d)) ->
  exists dm, save i load_allowed_options = Some dm /\ load dm kw = Some i.
Proof.
  intros Hb Hwf HO Hnd Hkw Hag.
  destruct (load_save g O i load_allowed_options kw Hb Hwf) as (dm & Hs & Hl).
  exists dm. split; [exact Hs|]. rewrite Hl, (allowed_not_rejected _ Hkw).
  rewrite (lark_options_init_merge O load_allowed_options kw HO Hnd Hkw (fun k H => H)).
  cbn [obind]. replace (map _ option_defaults) with O; [exact Hb|].
  pose proof HO as HO'. unfold normalized, lark_options_init in HO'.
  destruct (forallb (fun kv => mem_str (fst kv) (map fst option_defaults)) O); [|discriminate].
  assert (HO2 : map (norm_option O) option_defaults = O) by congruence.
  rewrite <- HO2 at 1. apply map_ext_in. intros [k d] Hin. cbn [fst].
  destruct (mem_str k load_allowed_options) eqn:A.
  - apply mem_str_In in A. rewrite <- (Hag k d Hin A). destruct (aget k kw); reflexivity.
  - destruct (aget k kw) eqn:E; [|reflexivity]. exfalso.
    assert (In k (map fst kw)).
    { clear -E. induction kw as [|[k2 v2] r IH]; cbn in *; [discriminate|].
      destruct (String.eqb_spec k k2); auto. }
    apply Hkw in H. apply mem_str_In in H. congruence.
Qed.

(* load-time options: a saved parser loaded with load-allowed keyword arguments is the parser a direct construction
   with those options produces; any other known option is refused *)
Theorem load_override g O i kw :
  build g O = Some i -> wf_inst i -> allowed_only kw ->
  exists dm, save i [] = Some dm /\ load dm kw = obind (lark_options_init (aupdate O kw)) (build g).
Proof.
  intros Hb Hwf Hkw. destruct (load_save g O i [] kw Hb Hwf) as (dm & Hs & Hl).
  exists dm. split; [exact Hs|]. rewrite Hl, (allowed_not_rejected _ Hkw), drop_options_nil. reflexivity.
Qed.
Theorem load_rejects g O i k v kw :
  build g O = Some i -> wf_inst i -> In k construction_options ->
  exists dm, save i [] = Some dm /\ load dm ((k, v) :: kw) = None.
Proof.
  intros Hb Hwf Hk. destruct (load_save g O i [] ((k, v) :: kw) Hb Hwf) as (dm & Hs & Hl).
  exists dm. split; [exact Hs|]. rewrite Hl.
  assert (R : kw_rejected ((k, v) :: kw) = true).
  { unfold kw_rejected. cbn [existsb fst].
    assert (P : options_partition_b = true) by (vm_compute; reflexivity).
    unfold options_partition_b in P. apply andb_true_iff in P. destruct P as (P1 & P2).
    rewrite forallb_forall in P1, P2.
    assert (D : mem_str k (map fst option_defaults) = true) by (apply P2; apply in_or_app; right; exact Hk).
    specialize (P1 k (proj1 (mem_str_In _ _) D)). apply mem_str_In in Hk. rewrite Hk in P1.
    destruct (mem_str k load_allowed_options); [discriminate|]. rewrite D. reflexivity. }
  rewrite R. reflexivity.
Qed.

(* the stand-alone module: DATA / MEMO are printed (or pickled, compressed and base64-encoded) into the module text
   and read back by the Python parser (or pickle); that codec is a Section variable.  What is proved: the literals
   carry exactly memo_serialize's output, Lark_StandAlone (keyword arguments kw) = Lark._load_from_dict (DATA, MEMO, kw) rebuilds
   the instance, and the integers the module rebinds Shift / Reduce to are distinct.  NOT modelled: that the
   extracted sections are the same program as the library. *)
Section Standalone.
  Variable encode : value -> string.
  Variable decode : string -> option value.
  Hypothesis codec : forall v, decode (encode v) = Some v.
  Definition standalone_load (sd sm : string) (kw : options) : option lark_inst :=
    obind (decode sd) (fun d => obind (decode sm) (fun m => load (d, m) kw)).
  Theorem standalone_roundtrip g O i kw :
    build g O = Some i -> wf_inst i -> allowed_only kw ->
    exists data mj, memo_serialize i = Some (data, mj) /\
      standalone_load (encode data) (encode mj) kw = obind (lark_options_init (aupdate O kw)) (build g) /\
      standalone_shift <> standalone_reduce.
  Proof.
    intros Hb Hwf Hkw. destruct (load_override g O i kw Hb Hwf Hkw) as ([data mj] & Hs & Hl).
    unfold save in Hs. destruct (memo_serialize i) as [[dd mm]|] eqn:E; [|discriminate].
    destruct dd; try discriminate. inversion Hs; subst.
    eexists; eexists. split; [reflexivity|]. split; [|discriminate].
    unfold standalone_load. rewrite !codec. cbn [obind]. exact Hl.
  Qed.
End Standalone.

(* regression (found by this development, repaired in lark: Pattern._deserialize): without re-freezing, the
   flags come back as lists and the embedding test of _create_unless changes its answer *)
Lemma flags_list_changes_unless_test :
  exists a b, flags_le (FSet a) (FSet b) = Some false /\
              flags_le (flags_as_list (FSet a)) (flags_as_list (FSet b)) = Some true.
Proof. exists ["i"], ["s"]. split; reflexivity. Qed.
(* with the hook the test is unchanged, whatever the flags *)
Lemma flags_le_preserved a b fa fb :
  flags_ok a -> flags_ok b -> deser_flags (ser_flags a) = Some fa -> deser_flags (ser_flags b) = Some fb ->
  flags_le fa fb = flags_le a b.
Proof.
  intros Ha Hb. rewrite (flags_roundtrip _ Ha), (flags_roundtrip _ Hb). intros H1 H2. inversion H1; inversion H2; subst.
  reflexivity.
Qed.
