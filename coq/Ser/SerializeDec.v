(* C11 - decidable equality on the typed objects and a boolean form of the hypotheses of the round-trip theorems
   ([wf_inst]); its soundness is proved in Ser/SerializeDec_proofs.v, so what the harness evaluates on every exported
   instance is, provably, what the theorems ask.  Definitions only. *)
From Coq Require Import ZArith List Bool String Ascii.
From LV Require Import Ser.Value Gen.SerializeFields Ser.Serialize.
Import ListNotations.
Local Open Scope string_scope.
Local Open Scope list_scope.

Definition ostring_eq_dec : forall a b : option string, {a = b} + {a <> b}.
Proof. decide equality. apply string_dec. Defined.
Definition oZ_eq_dec : forall a b : option Z, {a = b} + {a <> b}.
Proof. decide equality. apply Z.eq_dec. Defined.
Definition flagsv_eq_dec : forall a b : flagsv, {a = b} + {a <> b}.
Proof. decide equality; apply (list_eq_dec string_dec). Defined.
Definition widthv_eq_dec : forall a b : widthv, {a = b} + {a <> b}.
Proof. decide equality; apply Z.eq_dec. Defined.
Definition pattern_eq_dec : forall a b : pattern, {a = b} + {a <> b}.
Proof. decide equality; first [apply string_dec | apply flagsv_eq_dec | apply ostring_eq_dec | apply widthv_eq_dec]. Defined.
Definition termdef_eq_dec : forall a b : termdef, {a = b} + {a <> b}.
Proof. decide equality; first [apply string_dec | apply pattern_eq_dec | apply Z.eq_dec]. Defined.
Definition sym_eq_dec : forall a b : sym, {a = b} + {a <> b}.
Proof. decide equality; first [apply string_dec | apply bool_dec]. Defined.
Definition rule_options_eq_dec : forall a b : rule_options, {a = b} + {a <> b}.
Proof.
  decide equality; first [apply bool_dec | apply oZ_eq_dec | apply ostring_eq_dec | apply (list_eq_dec bool_dec)].
Defined.
Definition rule_eq_dec : forall a b : rule, {a = b} + {a <> b}.
Proof.
  decide equality; first [apply sym_eq_dec | apply (list_eq_dec sym_eq_dec) | apply Z.eq_dec | apply ostring_eq_dec
                         | apply rule_options_eq_dec].
Defined.
Definition mentry_eq_dec : forall a b : mentry, {a = b} + {a <> b}.
Proof. decide equality; first [apply termdef_eq_dec | apply rule_eq_dec]. Defined.

Definition keys_unique_dec (l : list mentry) : bool :=
  forallb (fun a => forallb (fun b => implb (mentry_keyeqb a b) (if mentry_eq_dec a b then true else false)) l) l.
Definition flags_ok_b (f : flagsv) : bool := match f with FSet _ => true | FList _ => false end.
Definition termdef_ok_b (t : termdef) : bool :=
  flags_ok_b (match td_pattern t with PatStr _ f _ | PatRE _ f _ _ => f end).
Definition wf_inst_b (i : lark_inst) : bool :=
  keys_unique_dec (entries i) && forallb termdef_ok_b (lc_terminals (fe_lexer_conf (li_parser i))) &&
  match li_rules i with [] => false | _ => true end.
