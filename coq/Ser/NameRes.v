(* C11, stand-alone clause - a name-resolution semantics of the execution of the generated module.

   The module is an ordered list of top-level statements (Gen/StandaloneUnits.v, regenerated from the sections the
   tool extracts).  Code is cut into *units* - the pieces that run at different times: the import-time code of a
   statement, the body of a function, the body of a method, the expression of a class-level assignment, the full
   text of a module-level assignment.  For every unit the translator records the syntactic facts only (which global
   names it loads and in what position, which attribute names it uses, ...).  Everything else is defined here:

     - what a unit may call, given the names bound so far, the values that have escaped ([F], "flowed") and the
       classes of which an object may exist ([K], "known"): [calls_of];
     - a small-step machine: statements run in order; running a statement runs its import-time unit, then binds its
       names; a running unit may load a global (NameError if it is not bound *now*, unless the load is guarded by
       try/except NameError or disabled by a flag), call any unit [calls_of] allows, let a value escape, return.
       Control flow inside a unit is abstracted to "any order, any number of times", so every run of the real
       evaluator that resolves names this way is one of the runs of the machine;
     - the last statement is the *client*: a unit that may call the entry point, use every public name and every
       public attribute of the module.
   [program_ok] is a decidable check (a closure computation per statement); Ser/NameRes_proofs.v proves that it
   implies that no run of the machine reaches [NameErr].  Definitions only. *)
From Coq Require Import List String Bool Arith.
From LV Require Import Ser.StandaloneModel.
Import ListNotations.
Local Open Scope string_scope.
Local Open Scope list_scope.

Inductive lpos := PCall | PFlow | PNoflow | PAttr (a : string).
Record gload := mkLoad { l_name : string; l_pos : lpos; l_cond : string; l_guard : bool }.
Record cunit := mkUnit {
  u_key : string;              (* "<k>" import-time code of statement k, "f", "C.m", "=<k>" value of statement k *)
  u_cls : string;              (* the class a method belongs to, "" otherwise *)
  u_loads : list gload;        (* loads of global names *)
  u_attrs : list string;       (* attribute names used on arbitrary objects *)
  u_super : list string;       (* attribute names used on super() *)
  u_selfcall : bool;           (* cls(...), self.__class__(...), type(self)(...) *)
  u_selfalloc : bool;          (* cls.__new__(cls) *)
  u_dyn : list string;         (* classes in whose hierarchy a non-literal getattr looks up *)
  u_indirect : bool;           (* calls a value that is not a global name / attribute of a global class name *)
  u_selfreads : list string;   (* self.a read  *)
  u_selfwrites : list string   (* self.a = ... *) }.
Record cls := mkCls { c_name : string; c_bases : list string; c_members : list string }.
Record tstmt := mkStmt { t_label : string; t_binds : list string; t_kind : string; t_file : string;
                         t_eager : cunit; t_units : list cunit; t_class : option cls }.

Definition init_names : list string := ["__init__"; "__new__"; "__post_init__"].
Definition qual (c m : string) : string := String.append c (String.append "." m).
(* implicitly invoked methods (operators, builtins, str(), iteration, pickling ...): every __x__ except the constructors *)
Definition is_dunder (m : string) : bool :=
  Nat.ltb 4 (String.length m) && String.prefix "__" m && (substring (String.length m - 2) 2 m =? "__") && negb (mem m init_names).

Record cert := mkCert { c_R : list string; c_F : list string; c_K : list string }.

Section Machine.
  Variable P : list tstmt.                     (* the program, the client statement last *)
  Variable Bi : list string.                   (* builtins and module dunders *)
  Variable flags : list (string * string).     (* probe flags: F is true iff the probed name is bound *)
  Variable data : list string.                 (* the data flags that are true: "data:<k>" iff key k is in DATA *)
  Variable NR : list string.                   (* units declared never to run on the load path (validated by tracing) *)

  Definition provided_names : list string := flat_map t_binds P.
  Definition classes : list cls := flat_map (fun t => match t_class t with Some c => [c] | None => [] end) P.
  Definition class_of (n : string) : option cls := find (fun c => c_name c =? n) classes.
  Definition is_class (n : string) : bool := match class_of n with Some _ => true | None => false end.
  Definition members (n : string) : list string := match class_of n with Some c => c_members c | None => [] end.
  (* the class hierarchy, as two tables computed once from the program ([anc_table], [desc_table] below) *)
  Variable ancT descT : list (string * list string).
  Definition tbl_get (T : list (string * list string)) (n : string) : option (list string) :=
    match find (fun e => fst e =? n) T with Some e => Some (snd e) | None => None end.
  Definition ancestors (n : string) : list string := match tbl_get ancT n with Some l => l | None => [n] end.
  Definition descendants (n : string) : list string := match tbl_get descT n with Some l => l | None => [] end.
  Definition hierarchy (n : string) : list string := ancestors n ++ descendants n.

  Definition all_units : list cunit := flat_map (fun t => t_eager t :: t_units t) P.
  Definition unit_of (k : string) : option cunit := find (fun u => u_key u =? k) all_units.
  Definition is_unit (k : string) : bool := match unit_of k with Some _ => true | None => false end.

  Definition flag_value (f : string) : bool :=
    if f =? "" then true
    else if String.prefix "data:" f then mem f data
    else match find (fun fn => fst fn =? f) flags with
         | Some (_, n) => mem n provided_names || mem n Bi
         | None => true
         end.
  Definition enabled (l : gload) : bool := flag_value (l_cond l).

  (* the units that may run when the value bound to the global name [n] is called *)
  Definition call_name (b : list string) (n : string) : list string :=
    if mem n b then
      flat_map (fun t => if mem n (t_binds t) then
                           if t_kind t =? "def" then [n]
                           else if t_kind t =? "class" then flat_map (fun a => map (qual a) init_names) (ancestors n)
                           else if (t_kind t =? "import") || (t_kind t =? "type-checking") then []
                           else [String.append "=" (t_label t)]
                         else []) P
    else [].
  (* an object of class [n] (the class itself or an instance) may now be around: its methods and its ancestors' *)
  Definition touch (b : list string) (n : string) : list string :=
    if (if is_class n then mem n b else false) then ancestors n else [].

  Definition load_calls (b : list string) (l : gload) : list string :=
    if (if enabled l then mem (l_name l) b else false) then
      match l_pos l with
      | PCall => call_name b (l_name l)
      | PAttr a => if is_class (l_name l) then map (fun c => qual c a) (ancestors (l_name l)) else []
      | _ => []
      end
    else [].
  (* what a unit may call: through the global names it loads and through super() / cls(...) ... *)
  Definition static_calls (b : list string) (u : cunit) : list string :=
    flat_map (load_calls b) (u_loads u)
    ++ flat_map (fun a => map (fun c => qual c a) (tl (ancestors (u_cls u)))) (u_super u)
    ++ (if u_selfcall u then flat_map (call_name b) (descendants (u_cls u)) else []).
  (* ... through an attribute of some object: any member of that name of any class of which an object may be around;
     through a non-literal getattr: any member of such a class in the hierarchy it looks in *)
  Definition in_dyn (u : cunit) (c : string) : bool := existsb (fun dc => mem c (hierarchy dc)) (u_dyn u).
  Definition obj_calls (u : cunit) (K : list string) : list string :=
    flat_map (fun c => map (qual c) (filter (fun m => mem m (u_attrs u)) (members c))
                       ++ (if in_dyn u c then map (qual c) (members c) else [])) K.
  (* ... implicitly (operators, str(), iteration, pickling): any __x__ member of such a class *)
  Definition dunder_calls (K : list string) : list string :=
    flat_map (fun c => map (qual c) (filter is_dunder (members c))) K.
  (* ... through a value that is not a global name (a local, a parameter, a container element): anything that escaped *)
  Definition flow_calls (b F : list string) : list string := flat_map (call_name b) F.
  Definition calls_of (b : list string) (u : cunit) (F K : list string) : list string :=
    static_calls b u ++ obj_calls u K ++ dunder_calls K ++ (if u_indirect u then flow_calls b F else []).
  Definition flows_of (b : list string) (u : cunit) : list string :=
    flat_map (fun l => match l_pos l with PFlow => if (if enabled l then mem (l_name l) b else false) then [l_name l] else [] | _ => [] end)
             (u_loads u).
  Definition knows_of (b : list string) (u : cunit) : list string :=
    flat_map (fun l => match l_pos l with
                       | PNoflow => []
                       | _ => if (if enabled l then mem (l_name l) b else false) then touch b (l_name l) else []
                       end) (u_loads u)
    ++ (if u_selfcall u || u_selfalloc u then flat_map (touch b) (descendants (u_cls u)) else []).
  (* a load that raises NameError into the unit: enabled, not guarded, the name neither bound now nor builtin *)
  Definition load_fails (b : list string) (l : gload) : bool :=
    if l_guard l then false else if mem (l_name l) b then false else if mem (l_name l) Bi then false else enabled l.

  Inductive mstate :=
  | Run (b F K : list string) (todo : list tstmt) (stack : list string) (cur : option tstmt)
  | NameErr (u n : string).

  Inductive step : mstate -> mstate -> Prop :=
  | s_begin b F K t r :
      step (Run b F K (t :: r) [] None) (Run b F K r [u_key (t_eager t)] (Some t))
  | s_end b F K r t :
      step (Run b F K r [] (Some t)) (Run (t_binds t ++ b) F K r [] None)
  | s_call b F K r k st c u k' :
      unit_of k = Some u -> In k' (calls_of b u F K) -> ~ In k' NR -> is_unit k' = true ->
      step (Run b F K r (k :: st) c) (Run b F K r (k' :: k :: st) c)
  | s_flow b F K r k st c u n :
      unit_of k = Some u -> In n (flows_of b u) ->
      step (Run b F K r (k :: st) c) (Run b (n :: F) K r (k :: st) c)
  | s_know b F K r k st c u x :
      unit_of k = Some u -> In x (knows_of b u) ->
      step (Run b F K r (k :: st) c) (Run b F (x :: K) r (k :: st) c)
  | s_ret b F K r k st c :
      step (Run b F K r (k :: st) c) (Run b F K r st c)
  | s_err b F K r k st c u l :
      unit_of k = Some u -> In l (u_loads u) -> load_fails b l = true ->
      step (Run b F K r (k :: st) c) (NameErr k (l_name l)).

  Inductive steps : mstate -> mstate -> Prop :=
  | steps_refl s : steps s s
  | steps_step s t u : steps s t -> step t u -> steps s u.
  Definition initial : mstate := Run [] [] [] P [] None.

  (* ---- the check *)
  Definition incl_b (l m : list string) : bool := forallb (fun x => mem x m) l.
  Definition tgt_ok (C : cert) (k : string) : bool :=
    if mem k (c_R C) then true else if mem k NR then true else negb (is_unit k).
  Definition unit_closed (b : list string) (C : cert) (u : cunit) : bool :=
    forallb (tgt_ok C) (static_calls b u) && forallb (tgt_ok C) (obj_calls u (c_K C))
    && incl_b (flows_of b u) (c_F C) && incl_b (knows_of b u) (c_K C)
    && forallb (fun l => negb (load_fails b l)) (u_loads u).
  Definition some_indirect (R : list string) : bool :=
    existsb (fun k => match unit_of k with Some u => u_indirect u | None => false end) R.
  Definition phase_ok (b F0 K0 : list string) (root : string) (C : cert) : bool :=
    mem root (c_R C) && incl_b F0 (c_F C) && incl_b K0 (c_K C)
    && forallb (tgt_ok C) (dunder_calls (c_K C))
    && (if some_indirect (c_R C) then forallb (tgt_ok C) (flow_calls b (c_F C)) else true)
    && forallb (fun k => match unit_of k with Some u => unit_closed b C u | None => true end) (c_R C).

  Definition add_all (xs acc : list string) : list string :=
    fold_left (fun a x => if mem x a then a else x :: a) xs acc.
  Definition new_units (ks acc : list string) : list string :=
    fold_left (fun a k => if mem k a then a else if mem k NR then a else if is_unit k then k :: a else a) ks acc.
  Definition expand (b : list string) (C : cert) : cert :=
    let C1 := fold_left (fun C' k => match unit_of k with
                           | Some u => mkCert (new_units (static_calls b u ++ obj_calls u (c_K C)) (c_R C'))
                                              (add_all (flows_of b u) (c_F C')) (add_all (knows_of b u) (c_K C'))
                           | None => C'
                           end) (c_R C) C in
    let R2 := new_units (dunder_calls (c_K C)) (c_R C1) in
    mkCert (if some_indirect (c_R C) then new_units (flow_calls b (c_F C)) R2 else R2) (c_F C1) (c_K C1).
  Definition cert_size (C : cert) : nat := List.length (c_R C) + List.length (c_F C) + List.length (c_K C).
  Fixpoint saturate (fuel : nat) (b : list string) (C : cert) : cert :=
    match fuel with
    | O => C
    | S f => let C' := expand b C in if Nat.eqb (cert_size C') (cert_size C) then C else saturate f b C'
    end.
  Definition phase_cert (b F0 K0 : list string) (root : string) : cert := saturate 60 b (mkCert [root] F0 K0).

  (* statements in order: the certificate of each statement starts from the escaped values / known classes of the
     previous one.  (The certificate function is an argument so that the termination check does not unfold it.) *)
  Section WithCert.
    Variable pc : list string -> list string -> list string -> string -> cert.
    Fixpoint run_check_with (b F K : list string) (todo : list tstmt) : bool :=
      match todo with
      | [] => true
      | t :: r => let C := pc b F K (u_key (t_eager t)) in
                  phase_ok b F K (u_key (t_eager t)) C && run_check_with (t_binds t ++ b) (c_F C) (c_K C) r
      end.
    (* the certificates used, by statement *)
    Fixpoint certs_with (b F K : list string) (todo : list tstmt) : list (string * cert) :=
      match todo with
      | [] => []
      | t :: r => let C := pc b F K (u_key (t_eager t)) in
                  (t_label t, C) :: certs_with (t_binds t ++ b) (c_F C) (c_K C) r
      end.
    (* diagnostics: the first statement whose check fails, with the failing loads *)
    Fixpoint first_failure_with (b F K : list string) (todo : list tstmt) : list (string * string * string) :=
      match todo with
      | [] => []
      | t :: r => let C := pc b F K (u_key (t_eager t)) in
                  if phase_ok b F K (u_key (t_eager t)) C then first_failure_with (t_binds t ++ b) (c_F C) (c_K C) r
                  else flat_map (fun k => match unit_of k with
                                          | Some u => map (fun l => (t_label t, k, l_name l)) (filter (load_fails b) (u_loads u))
                                          | None => []
                                          end) (c_R C) ++ [(t_label t, "<not closed>", "")]
      end.
    (* the certificate of the last statement (the client): the units that may run after import *)
    Fixpoint final_cert_with (b F K : list string) (todo : list tstmt) : cert :=
      match todo with
      | [] => mkCert [] F K
      | t :: r => let C := pc b F K (u_key (t_eager t)) in
                  match r with [] => C | _ :: _ => final_cert_with (t_binds t ++ b) (c_F C) (c_K C) r end
      end.
  End WithCert.
  Definition run_check := run_check_with phase_cert.
  Definition program_ok : bool := run_check [] [] [] P.
  Definition first_failure := first_failure_with phase_cert [] [] [] P.
  Definition reachable_units : list string := c_R (final_cert_with phase_cert [] [] [] P).

  (* sanity condition on the regenerated facts, checked by an Example: unit keys are unique *)
  Fixpoint nodup_b (l : list string) : bool :=
    match l with [] => true | x :: r => negb (mem x r) && nodup_b r end.
  Definition keys_unique : bool := nodup_b (map u_key all_units).

  (* ---- executing a given run (for concrete witnesses) *)
  Inductive action := ABegin | AEnd | ACall (k : string) | AFlow (n : string) | AKnow (x : string) | ARet | AErr (n : string).
  Definition exec_top (s : mstate) (f : list string -> list string -> list string -> list tstmt -> string -> list string ->
                                        option tstmt -> cunit -> option mstate) : option mstate :=
    match s with
    | Run b F K r stack c =>
        match stack with
        | k :: st => match unit_of k with Some u => f b F K r k st c u | None => None end
        | [] => None
        end
    | NameErr _ _ => None
    end.
  Definition exec1 (a : action) (s : mstate) : option mstate :=
    match a with
    | ABegin => match s with
                | Run b F K todo stack cur =>
                    match todo, stack, cur with
                    | t :: r, [], None => Some (Run b F K r [u_key (t_eager t)] (Some t))
                    | _, _, _ => None
                    end
                | NameErr _ _ => None
                end
    | AEnd => match s with
              | Run b F K r stack cur =>
                  match stack, cur with
                  | [], Some t => Some (Run (t_binds t ++ b) F K r [] None)
                  | _, _ => None
                  end
              | NameErr _ _ => None
              end
    | ACall k' => exec_top s (fun b F K r k st c u =>
                    if (if mem k' (calls_of b u F K) then if mem k' NR then false else is_unit k' else false) then Some (Run b F K r (k' :: k :: st) c) else None)
    | AFlow n => exec_top s (fun b F K r k st c u =>
                    if mem n (flows_of b u) then Some (Run b (n :: F) K r (k :: st) c) else None)
    | AKnow x => exec_top s (fun b F K r k st c u =>
                    if mem x (knows_of b u) then Some (Run b F (x :: K) r (k :: st) c) else None)
    | ARet => match s with
              | Run b F K r stack c => match stack with k :: st => Some (Run b F K r st c) | [] => None end
              | NameErr _ _ => None
              end
    | AErr n => exec_top s (fun b F K r k st c u =>
                    if existsb (fun l => (l_name l =? n) && load_fails b l) (u_loads u) then Some (NameErr k n) else None)
    end.
  Fixpoint exec (acts : list action) (s : mstate) : option mstate :=
    match acts with
    | [] => Some s
    | a :: r => match exec1 a s with Some s' => exec r s' | None => None end
    end.
End Machine.

(* the class hierarchy of a program: a class with its ancestors among the classes of the module (depth-bounded walk
   over the base lists; [hierarchy_depth_ok] says the bound is not reached) and the classes that have it as ancestor *)
Section Tables.
  Variable P : list tstmt.
  Definition class_bases (n : string) : list string :=
    match find (fun c => c_name c =? n) (classes P) with
    | Some c => filter (fun x => existsb (fun d => c_name d =? x) (classes P)) (c_bases c)
    | None => []
    end.
  Fixpoint anc (fuel : nat) (n : string) : list string :=
    n :: match fuel with O => [] | S f => flat_map (anc f) (class_bases n) end.
  Definition anc_table : list (string * list string) := map (fun c => (c_name c, anc 8 (c_name c))) (classes P).
  Definition desc_table : list (string * list string) :=
    map (fun c => (c_name c, map fst (filter (fun e => mem (c_name c) (snd e)) anc_table))) (classes P).
  Definition hierarchy_depth_ok : bool :=
    forallb (fun c => Nat.eqb (List.length (anc 8 (c_name c))) (List.length (anc 9 (c_name c)))) (classes P).
End Tables.

(* the client statement: what a user of the generated module may do with it.  It calls the entry point, uses (calls,
   subclasses, passes around) the public names [names] and any attribute in [attrs] of any object it gets *)
Definition client_stmt (names attrs : list string) : tstmt :=
  mkStmt "<client>" [] "client" ""
    (mkUnit "<client>" ""
       (mkLoad "Lark_StandAlone" PCall "" false
        :: map (fun n => mkLoad n PCall "" false) names ++ map (fun n => mkLoad n PFlow "" false) names)
       attrs [] false false [] true [] [])
    [] None.

(* public attribute names of the program: members of its classes that do not start with an underscore *)
Definition public_attrs (P : list tstmt) : list string :=
  fold_left (fun acc m => if mem m acc then acc else acc ++ [m])
            (filter (fun m => negb (String.prefix "_" m)) (flat_map c_members (classes P))) [].

(* ---- declarations (hand-written; each is an assumption about how the module is used, validated by the harness) *)
(* units that never run on the load path although the call graph (which does not look at values) reaches them:
   create_lalr_parser is registered in _parser_creators and only called from the branch of ParsingFrontend.__init__
   that runs when no parser object is passed; _deserialize_parsing_frontend always passes one *)
Definition sa_not_run : list string := ["create_lalr_parser"].
(* methods of the library that the generated module does not support (they need the grammar loader, the cache or the
   serialiser, which are not extracted): a client calling them is outside the statement *)
Definition sa_unsupported_attrs : list string := ["open"; "open_from_package"; "save"; "serialize"; "memo_serialize"].
(* public names of the module a client may use besides the entry point: lark/__init__.py's __all__ (regenerated into
   Gen/StandaloneUnits.v as sau_api_names) plus the documented visitor / indenter classes *)
Definition sa_extra_api : list string :=
  ["Transformer_InPlace"; "Transformer_InPlaceRecursive"; "Visitor_Recursive"; "Interpreter"; "merge_transformers";
   "Indenter"; "PythonIndenter"; "DedentError"; "VisitError"; "InlineTransformer"; "visit_children_decor"].
