(* C11, stand-alone clause - the regenerated program passes the check; consequences. *)
From Coq Require Import List String Bool.
From LV Require Import Ser.StandaloneModel Ser.Standalone_proofs Ser.NameRes Ser.NameRes_proofs Gen.StandaloneUnits
  Ser.NameResInstance.
Import ListNotations.
Local Open Scope string_scope.
Local Open Scope list_scope.

Lemma sa_tables_ok : sa_anc = anc_table sa_full /\ sa_desc = desc_table sa_full /\ hierarchy_depth_ok sa_full = true
                     /\ keys_unique sa_full = true.
Proof. vm_compute. repeat split. Qed.

Lemma sa_checked :
  run_check_with sa_full sau_builtins sau_flags sa_data sa_not_run sa_anc sa_desc (fun _ _ _ r => sa_pc1 r) [] [] [] sa_full = true.
Proof. vm_compute. reflexivity. Qed.

Theorem sa_no_name_error s : sa_steps (initial sa_full) s -> forall u n, s <> NameErr u n.
Proof. exact (no_name_error sa_full sau_builtins sau_flags sa_data sa_not_run sa_anc sa_desc (fun _ _ _ r => sa_pc1 r) sa_checked s). Qed.

Lemma client_label_unique t : In t sa_full -> t_label t = "<client>" -> t = sa_client.
Proof.
  intros Hin. unfold sa_full in Hin. apply in_app_or in Hin. destruct Hin as [Hin|[<-|[]]]; [|reflexivity].
  intros E. exfalso.
  assert (H : forallb (fun t => negb (t_label t =? "<client>")) sau_program = true) by (vm_compute; reflexivity).
  rewrite forallb_forall in H. specialize (H t Hin). rewrite E in H. cbn in H. discriminate.
Qed.

(* while the client statement runs - i.e. whatever a user does with the imported module - only units of [sa_reached] run *)
Lemma sa_reached_eq : c_R (sa_pc1 (u_key (t_eager sa_client))) = sa_reached.
Proof. vm_compute. reflexivity. Qed.
Theorem sa_client_runs_reached b F K todo stack :
  sa_steps (initial sa_full) (Run b F K todo stack (Some sa_client)) -> forall k, In k stack -> In k sa_reached.
Proof.
  intros Hs k Hk. rewrite <- sa_reached_eq.
  exact (stmt_runs_in_cert sa_full sau_builtins sau_flags sa_data sa_not_run sa_anc sa_desc sa_pc1 sa_client sa_checked
           client_label_unique b F K todo stack Hs k Hk).
Qed.

(* the declared never-run units and the unsupported API really are what keeps the program closed: the units outside
   [sa_reached] (Lark.__init__, the serialiser, the cache digest ...) are listed by the harness from [sa_unreached] *)

(* DATA with a 'grammar' key (what gen_standalone embedded for an instance built with cache_grammar=True before it was
   repaired, F53): the run  import; Lark_StandAlone(); Lark._load_from_dict; Lark._load  loads Grammar -> NameError *)
Lemma sa_cache_grammar_outcome :
  has_data_grammar_load = true -> cache_grammar_outcome = Some (NameErr "Lark._load" "Grammar").
Proof. vm_compute. intros H; first [reflexivity | discriminate H]. Qed.
Theorem sa_cache_grammar_name_error :
  has_data_grammar_load = true ->
  steps sa_full sau_builtins sau_flags sa_data_cg sa_not_run sa_anc sa_desc (initial sa_full) (NameErr "Lark._load" "Grammar").
Proof.
  intros H. apply (exec_steps _ _ _ _ _ _ _ cache_grammar_run). exact (sa_cache_grammar_outcome H).
Qed.
