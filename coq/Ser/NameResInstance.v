(* C11, stand-alone clause - the name-resolution machine instantiated with the regenerated program (Gen/StandaloneUnits.v)
   and the client statement.  The certificates are computed once here (Eval vm_compute) and only checked afterwards.
   Definitions only. *)
From Coq Require Import List String Bool.
From LV Require Import Ser.StandaloneModel Ser.NameRes Gen.StandaloneUnits.
Import ListNotations.
Local Open Scope string_scope.
Local Open Scope list_scope.

Definition sa_client_names : list string := sau_api_names ++ sa_extra_api.
Definition sa_client_attrs : list string :=
  filter (fun a => negb (mem a sa_unsupported_attrs)) (public_attrs sau_program).
Definition sa_client : tstmt := client_stmt sa_client_names sa_client_attrs.
Definition sa_full : list tstmt := sau_program ++ [sa_client].
Definition sa_anc : list (string * list string) := Eval vm_compute in anc_table sa_full.
Definition sa_desc : list (string * list string) := Eval vm_compute in desc_table sa_full.

(* DATA of a module generated from an instance without cache_grammar has no 'grammar' key: no data flag is true *)
Definition sa_data : list string := [].

Definition sa_certs : list (string * cert) :=
  Eval vm_compute in
    certs_with (phase_cert sa_full sau_builtins sau_flags sa_data sa_not_run sa_anc sa_desc) [] [] [] sa_full.
Definition sa_pc1 (root : string) : cert :=
  match find (fun e => fst e =? root) sa_certs with Some e => snd e | None => mkCert [] [] [] end.
Definition sa_pc (_ _ _ : list string) (root : string) : cert := sa_pc1 root.
(* everything that may run once the module is imported *)
Definition sa_reached : list string := Eval vm_compute in c_R (sa_pc1 "<client>").
Definition sa_unreached : list string :=
  filter (fun k => negb (mem k sa_reached) && negb (String.prefix "<" k) && negb (String.prefix "=" k))
         (map u_key (all_units sau_program)).

Definition sa_step := step sa_full sau_builtins sau_flags sa_data sa_not_run sa_anc sa_desc.
Definition sa_steps := steps sa_full sau_builtins sau_flags sa_data sa_not_run sa_anc sa_desc.

(* the harness hands over the units (functions / methods of the generated module) that real runs called *)
Definition check_called (ks : list string) : bool := forallb (fun k => mem k sa_reached) ks.

(* ---- the same module with DATA from an instance built with cache_grammar=True: DATA has a 'grammar' key *)
Definition sa_data_cg : list string := ["data:grammar"].
Fixpoint import_all (n : nat) : list action := match n with O => [] | S m => ABegin :: ARet :: AEnd :: import_all m end.
Definition cache_grammar_run : list action :=
  import_all (List.length sau_program)
  ++ [ABegin; ACall "Lark_StandAlone"; ACall "Lark._load_from_dict"; AKnow "Lark"; ACall "Lark._load"; AErr "Grammar"].
Definition has_data_grammar_load : bool :=
  existsb (fun u => (u_key u =? "Lark._load") && existsb (fun l => (l_name l =? "Grammar") && (l_cond l =? "data:grammar")) (u_loads u))
          (all_units sau_program).
Definition cache_grammar_outcome : option mstate :=
  exec sa_full sau_builtins sau_flags sa_data_cg sa_not_run sa_anc sa_desc cache_grammar_run (initial sa_full).
