(* C11 - comparison helpers used by harness/props/C11.py: the harness exports the object graph of a real Lark
   instance (typed records), the dicts the real save / memo_serialize produced and the object graph of the
   instance the real _load returned; the functions below evaluate the model on them (vm_compute). *)
From Coq Require Import ZArith List Bool String Ascii.
From LV Require Import Ser.Value Gen.SerializeFields Ser.Serialize Ser.SerializeDec.
Import ListNotations.
Local Open Scope string_scope.
Local Open Scope list_scope.

Definition opt_eqb {A} (e : A -> A -> bool) (a b : option A) : bool :=
  match a, b with Some x, Some y => e x y | None, None => true | _, _ => false end.
Definition subset_str (a b : list string) : bool := forallb (fun x => mem_str x b) a.
(* a frozenset is compared as a set, a list as a list; the container kind must agree *)
Definition flags_eqb (a b : flagsv) : bool :=
  match a, b with
  | FSet x, FSet y => subset_str x y && subset_str y x
  | FList x, FList y => list_eqb String.eqb x y
  | _, _ => false
  end.
Definition width_eqb (a b : widthv) : bool :=
  match a, b with
  | WUnset, WUnset => true
  | WList a1 a2, WList b1 b2 | WTuple a1 a2, WTuple b1 b2 => Z.eqb a1 b1 && Z.eqb a2 b2
  | _, _ => false
  end.
Definition pattern_eqb (a b : pattern) : bool :=
  match a, b with
  | PatStr v f r, PatStr v' f' r' => String.eqb v v' && flags_eqb f f' && opt_eqb String.eqb r r'
  | PatRE v f r w, PatRE v' f' r' w' => String.eqb v v' && flags_eqb f f' && opt_eqb String.eqb r r' && width_eqb w w'
  | _, _ => false
  end.
Definition termdef_eqb (a b : termdef) : bool :=
  String.eqb (td_name a) (td_name b) && pattern_eqb (td_pattern a) (td_pattern b) && Z.eqb (td_priority a) (td_priority b).
Definition sym_eqb (a b : sym) : bool :=
  match a, b with
  | T n f, T m g => String.eqb n m && Bool.eqb f g
  | NT n, NT m => String.eqb n m
  | _, _ => false
  end.
Definition ro_eqb (a b : rule_options) : bool :=
  Bool.eqb (ro_keep_all_tokens a) (ro_keep_all_tokens b) && Bool.eqb (ro_expand1 a) (ro_expand1 b) &&
  opt_eqb Z.eqb (ro_priority a) (ro_priority b) && opt_eqb String.eqb (ro_template_source a) (ro_template_source b) &&
  list_eqb Bool.eqb (ro_empty_indices a) (ro_empty_indices b).
Definition rule_eqb (a b : rule) : bool :=
  sym_eqb (r_origin a) (r_origin b) && list_eqb sym_eqb (r_expansion a) (r_expansion b) && Z.eqb (r_order a) (r_order b) &&
  opt_eqb String.eqb (r_alias a) (r_alias b) && ro_eqb (r_options a) (r_options b).
Definition action_eqb (a b : action) : bool :=
  match a, b with
  | Shift x, Shift y => Z.eqb x y
  | Reduce r, Reduce s => rule_eqb r s
  | _, _ => false
  end.
Definition pair_eqb {A B} (ea : A -> A -> bool) (eb : B -> B -> bool) (a b : A * B) : bool :=
  ea (fst a) (fst b) && eb (snd a) (snd b).
Definition table_eqb (a b : table) : bool :=
  list_eqb (pair_eqb Z.eqb (list_eqb (pair_eqb String.eqb action_eqb))) (t_states a) (t_states b) &&
  list_eqb (pair_eqb String.eqb Z.eqb) (t_start a) (t_start b) &&
  list_eqb (pair_eqb String.eqb Z.eqb) (t_end a) (t_end b).
Definition lexer_conf_eqb (a b : lexer_conf) : bool :=
  list_eqb termdef_eqb (lc_terminals a) (lc_terminals b) && list_eqb String.eqb (lc_ignore a) (lc_ignore b) &&
  Z.eqb (lc_g_regex_flags a) (lc_g_regex_flags b) && Bool.eqb (lc_use_bytes a) (lc_use_bytes b) &&
  String.eqb (lc_lexer_type a) (lc_lexer_type b) && value_eqb (lc_callbacks a) (lc_callbacks b) &&
  Bool.eqb (lc_re_module a) (lc_re_module b) && value_eqb (lc_postlex a) (lc_postlex b).
Definition parser_conf_eqb (a b : parser_conf) : bool :=
  list_eqb rule_eqb (pc_rules a) (pc_rules b) && list_eqb String.eqb (pc_start a) (pc_start b) &&
  String.eqb (pc_parser_type a) (pc_parser_type b).
Definition inst_eqb (a b : lark_inst) : bool :=
  lexer_conf_eqb (fe_lexer_conf (li_parser a)) (fe_lexer_conf (li_parser b)) &&
  parser_conf_eqb (fe_parser_conf (li_parser a)) (fe_parser_conf (li_parser b)) &&
  table_eqb (fe_parser (li_parser a)) (fe_parser (li_parser b)) &&
  list_eqb rule_eqb (li_rules a) (li_rules b) &&
  list_eqb (pair_eqb String.eqb value_eqb) (li_options a) (li_options b).

(* hypotheses of the round-trip theorems, checked on every exported instance: [wf_inst_b] (sound for [wf_inst],
   Ser/SerializeDec_proofs.v) and uniqueness of the dict keys of the table *)
Fixpoint nodup_by {A} (e : A -> A -> bool) (l : list A) : bool :=
  match l with
  | [] => true
  | x :: r => negb (existsb (e x) r) && nodup_by e r
  end.
Definition table_wf_b (t : table) : bool :=
  nodup_by Z.eqb (map fst (t_states t)) &&
  forallb (fun sa => nodup_by String.eqb (map fst (snd sa))) (t_states t) &&
  nodup_by String.eqb (map fst (t_start t)) && nodup_by String.eqb (map fst (t_end t)).
Definition inst_wf_b (i : lark_inst) : bool :=
  wf_inst_b i && table_wf_b (fe_parser (li_parser i)).

Inductive ccase :=
(* the real Lark.save(f, excl) wrote {'data': data, 'memo': mj} for the instance i *)
| CSave (i : lark_inst) (excl : list string) (data mj : value)
(* the real Lark.save(f, excl) wrote the same dict as Lark.save(f) except for data['options'] = opts *)
| CSaveOpts (i : lark_inst) (excl : list string) (data mj opts : value)
(* the real Lark._load({'data': data, 'memo': mj}, kw) returned [expected] (None: it raised) *)
| CLoad (data mj : value) (kw : options) (expected : option lark_inst)
(* ParseTable.serialize(fresh memo) of the table t returned [expected]; the memo then serialised to [mj] *)
| CTable (t : table) (expected mj : value)
(* an instance built directly with the options o has this object graph *)
| CBuild (g : gpart) (o : options) (expected : lark_inst).

Definition check_case (c : ccase) : bool :=
  match c with
  | CSave i excl data mj =>
      inst_wf_b i &&
      match save i excl with
      | Some (d, m) => value_eqb d data && value_eqb m mj
      | None => false
      end
  | CSaveOpts i excl data mj opts =>
      match save i excl, data with
      | Some (d, m), VDict d0 => value_eqb d (VDict (dset "options" opts d0)) && value_eqb m mj
      | _, _ => false
      end
  | CLoad data mj kw expected =>
      match load (data, mj) kw, expected with
      | Some i, Some e => inst_eqb i e
      | None, None => true
      | _, _ => false
      end
  | CTable t expected mj =>
      table_wf_b t &&
      match ser_table t [] with
      | Some (v, m) => value_eqb v expected && opt_eqb value_eqb (ser_memo m) (Some mj)
      | None => false
      end
  | CBuild g o expected =>
      match build g o with
      | Some i => inst_eqb i expected
      | None => false
      end
  end.
