(* C11 - soundness of the boolean well-formedness check of Ser/SerializeDec.v *)
From Coq Require Import ZArith List Bool String Ascii.
From LV Require Import Ser.Value Gen.SerializeFields Ser.Serialize Ser.Serialize_proofs Ser.SerializeDec.
Import ListNotations.

Lemma keys_unique_dec_sound l :
  keys_unique_dec l = true -> forall a b, In a l -> In b l -> mentry_keyeqb a b = true -> a = b.
Proof.
  unfold keys_unique_dec. intros H a b Ha Hb Hk. rewrite forallb_forall in H. specialize (H a Ha).
  rewrite forallb_forall in H. specialize (H b Hb). rewrite Hk in H. cbn in H.
  destruct (mentry_eq_dec a b); [assumption|discriminate].
Qed.

Theorem wf_inst_b_sound i : wf_inst_b i = true -> wf_inst i.
Proof.
  unfold wf_inst_b, wf_inst. intros H. apply andb_true_iff in H. destruct H as (H & Hr).
  apply andb_true_iff in H. destruct H as (Hu & Ht). split; [apply keys_unique_dec_sound; exact Hu|]. split.
  - apply Forall_forall. intros t Hin. rewrite forallb_forall in Ht. specialize (Ht t Hin).
    unfold termdef_ok_b in Ht. unfold termdef_ok, pattern_ok, pattern_flags. destruct (td_pattern t) as [? f ?|? f ? ?]; destruct f; first [exact I|discriminate].
  - destruct (li_rules i); [discriminate|discriminate].
Qed.
