(* C11, stand-alone clause - the check of Ser/NameRes.v is sound: if every statement's certificate passes [phase_ok],
   no run of the name-resolution machine reaches [NameErr], and every unit that ever runs is in the certificate of
   the statement being executed. *)
From Coq Require Import List String Bool Arith.
From LV Require Import Ser.StandaloneModel Ser.Standalone_proofs Ser.NameRes.
Import ListNotations.
Local Open Scope string_scope.
Local Open Scope list_scope.

Lemma flat_map_incl {A B} (f : A -> list B) l l' : incl l l' -> incl (flat_map f l) (flat_map f l').
Proof.
  intros H x Hx. apply in_flat_map in Hx. destruct Hx as (a & Ha & Hx). apply in_flat_map. exists a. split; auto.
Qed.

Section Sound.
  Variable P : list tstmt.
  Variable Bi : list string.
  Variable flags : list (string * string).
  Variable data NR : list string.
  Variable ancT descT : list (string * list string).

  Notation unit_of := (unit_of P).
  Notation calls_of := (calls_of P Bi flags data ancT descT).
  Notation flows_of := (flows_of P Bi flags data).
  Notation knows_of := (knows_of P Bi flags data ancT descT).
  Notation load_fails := (load_fails P Bi flags data).
  Notation phase_ok := (phase_ok P Bi flags data NR ancT descT).
  Notation step := (step P Bi flags data NR ancT descT).
  Notation steps := (steps P Bi flags data NR ancT descT).
  Notation tgt_ok := (tgt_ok P NR).

  Lemma incl_b_sound l m : incl_b l m = true -> incl l m.
  Proof. unfold incl_b. rewrite forallb_forall. intros H x Hx. apply mem_In. apply H. exact Hx. Qed.

  Lemma tgt_ok_sound C k : tgt_ok C k = true -> ~ In k NR -> is_unit P k = true -> In k (c_R C).
  Proof.
    unfold NameRes.tgt_ok. intros H Hn Hu.
    destruct (mem k (c_R C)) eqn:A; [apply mem_In; exact A|].
    destruct (mem k NR) eqn:B; [exfalso; apply Hn; apply mem_In; exact B|].
    rewrite Hu in H. discriminate.
  Qed.

  (* what a passed certificate guarantees for each of its units, under any smaller F and K *)
  Record unit_safe (b : list string) (C : cert) (u : cunit) : Prop := {
    us_calls : forall F K k', incl F (c_F C) -> incl K (c_K C) ->
                 In k' (calls_of b u F K) -> ~ In k' NR -> is_unit P k' = true -> In k' (c_R C);
    us_flows : forall n, In n (flows_of b u) -> In n (c_F C);
    us_knows : forall x, In x (knows_of b u) -> In x (c_K C);
    us_loads : forall l, In l (u_loads u) -> load_fails b l = false }.

  Lemma phase_ok_units b F0 K0 root C :
    phase_ok b F0 K0 root C = true ->
    In root (c_R C) /\ incl F0 (c_F C) /\ incl K0 (c_K C) /\
    forall k u, In k (c_R C) -> unit_of k = Some u -> unit_safe b C u.
  Proof.
    unfold NameRes.phase_ok. intros H.
    repeat (apply andb_true_iff in H; destruct H as (H & ?)).
    rename H0 into Hunits, H1 into Hflow, H2 into Hdun, H3 into HK, H4 into HF.
    split; [apply mem_In; exact H|]. split; [apply incl_b_sound; exact HF|]. split; [apply incl_b_sound; exact HK|].
    intros k u Hk Hu. rewrite forallb_forall in Hunits. specialize (Hunits k Hk). rewrite Hu in Hunits.
    unfold unit_closed in Hunits.
    repeat (apply andb_true_iff in Hunits; destruct Hunits as (Hunits & ?)).
    rename Hunits into Hst, H0 into Hld, H1 into Hkn, H2 into Hfl, H3 into Hob.
    rewrite forallb_forall in Hst, Hob, Hdun, Hld.
    constructor.
    - intros F K k' HF' HK' Hin Hnr Hisu. unfold NameRes.calls_of in Hin.
      apply in_app_or in Hin. destruct Hin as [Hin|Hin]; [apply (tgt_ok_sound C k' (Hst _ Hin) Hnr Hisu)|].
      apply in_app_or in Hin. destruct Hin as [Hin|Hin].
      { apply (tgt_ok_sound C k'); auto. apply Hob. revert Hin. apply flat_map_incl. exact HK'. }
      apply in_app_or in Hin. destruct Hin as [Hin|Hin].
      { apply (tgt_ok_sound C k'); auto. apply Hdun. revert Hin. apply flat_map_incl. exact HK'. }
      destruct (u_indirect u) eqn:Hi; [|contradiction].
      assert (Hsome : some_indirect P (c_R C) = true).
      { unfold some_indirect. apply existsb_exists. exists k. split; [exact Hk|]. rewrite Hu. exact Hi. }
      rewrite Hsome in Hflow. rewrite forallb_forall in Hflow.
      apply (tgt_ok_sound C k'); auto. apply Hflow. revert Hin. apply flat_map_incl. exact HF'.
    - apply incl_b_sound. exact Hfl.
    - apply incl_b_sound. exact Hkn.
    - intros l Hl. specialize (Hld l Hl). apply negb_true_iff in Hld. exact Hld.
  Qed.

  (* ---- the invariant *)
  Section WithCert.
    Variable pc : list string -> list string -> list string -> string -> cert.
    Notation run_check := (run_check_with P Bi flags data NR ancT descT pc).
    Notation certs := (certs_with pc).
    Definition all_certs := certs [] [] [] P.

    Definition inv (s : mstate) : Prop :=
      match s with
      | NameErr _ _ => False
      | Run b F K todo stack None =>
          stack = [] /\ exists F' K', incl F F' /\ incl K K' /\ run_check b F' K' todo = true /\
                                      exists pre, all_certs = pre ++ certs b F' K' todo
      | Run b F K todo stack (Some t) =>
          exists C F0 K0, phase_ok b F0 K0 (u_key (t_eager t)) C = true /\ incl F (c_F C) /\ incl K (c_K C) /\
                          Forall (fun k => In k (c_R C)) stack /\
                          run_check (t_binds t ++ b) (c_F C) (c_K C) todo = true /\
                          exists pre, all_certs = pre ++ (t_label t, C) :: certs (t_binds t ++ b) (c_F C) (c_K C) todo
      end.

    Lemma inv_step s s' : inv s -> step s s' -> inv s'.
    Proof.
      intros Hi Hs. destruct Hs.
      - (* begin *)
        cbn in Hi. destruct Hi as (_ & F' & K' & HF & HK & Hrc & pre & Hpre). cbn in Hrc.
        apply andb_true_iff in Hrc. destruct Hrc as (Hph & Hrest).
        cbn. exists (pc b F' K' (u_key (t_eager t))), F', K'.
        destruct (phase_ok_units _ _ _ _ _ Hph) as (Hroot & HF0 & HK0 & _).
        split; [exact Hph|]. split; [intros x Hx; apply HF0, HF, Hx|]. split; [intros x Hx; apply HK0, HK, Hx|].
        split; [constructor; [exact Hroot|constructor]|]. split; [exact Hrest|]. exists pre. exact Hpre.
      - (* end *)
        cbn in Hi. destruct Hi as (C & F0 & K0 & Hph & HF & HK & _ & Hrest & pre & Hpre).
        cbn. split; [reflexivity|]. exists (c_F C), (c_K C). repeat split; auto.
        exists (pre ++ [(t_label t, C)]). rewrite <- app_assoc. exact Hpre.
      - (* call *)
        destruct c as [t|]; cbn in Hi; [|destruct Hi as (Hnil & _); discriminate].
        destruct Hi as (C & F0 & K0 & Hph & HF & HK & Hst & Hrest & Hpre).
        destruct (phase_ok_units _ _ _ _ _ Hph) as (_ & _ & _ & Hsafe).
        inversion Hst as [|? ? Hk Hst']; subst.
        cbn. exists C, F0, K0. repeat split; auto.
        constructor; [|exact Hst].
        apply (us_calls _ _ _ (Hsafe k u Hk H) F K k' HF HK H0 H1 H2).
      - (* flow *)
        destruct c as [t|]; cbn in Hi; [|destruct Hi as (Hnil & _); discriminate].
        destruct Hi as (C & F0 & K0 & Hph & HF & HK & Hst & Hrest & Hpre).
        destruct (phase_ok_units _ _ _ _ _ Hph) as (_ & _ & _ & Hsafe).
        inversion Hst as [|? ? Hk Hst']; subst.
        cbn. exists C, F0, K0. repeat split; auto.
        intros x [<-|Hx]; [apply (us_flows _ _ _ (Hsafe k u Hk H) n H0)|apply HF, Hx].
      - (* know *)
        destruct c as [t|]; cbn in Hi; [|destruct Hi as (Hnil & _); discriminate].
        destruct Hi as (C & F0 & K0 & Hph & HF & HK & Hst & Hrest & Hpre).
        destruct (phase_ok_units _ _ _ _ _ Hph) as (_ & _ & _ & Hsafe).
        inversion Hst as [|? ? Hk Hst']; subst.
        cbn. exists C, F0, K0. repeat split; auto.
        intros y [<-|Hy]; [apply (us_knows _ _ _ (Hsafe k u Hk H) x H0)|apply HK, Hy].
      - (* return *)
        destruct c as [t|]; cbn in Hi; [|destruct Hi as (Hnil & _); discriminate].
        destruct Hi as (C & F0 & K0 & Hph & HF & HK & Hst & Hrest & Hpre).
        inversion Hst as [|? ? Hk Hst']; subst.
        cbn. exists C, F0, K0. repeat split; auto.
      - (* NameError: impossible *)
        destruct c as [t|]; cbn in Hi; [|destruct Hi as (Hnil & _); discriminate].
        destruct Hi as (C & F0 & K0 & Hph & HF & HK & Hst & Hrest & Hpre).
        destruct (phase_ok_units _ _ _ _ _ Hph) as (_ & _ & _ & Hsafe).
        inversion Hst as [|? ? Hk Hst']; subst.
        rewrite (us_loads _ _ _ (Hsafe k u Hk H) l H0) in H1. discriminate.
    Qed.

    Lemma inv_steps s s' : inv s -> steps s s' -> inv s'.
    Proof. intros Hi Hs. induction Hs; [exact Hi|]. apply (inv_step t u); auto. Qed.

    (* no run of the machine reaches a NameError *)
    Theorem no_name_error :
      run_check [] [] [] P = true -> forall s, steps (initial P) s -> forall u n, s <> NameErr u n.
    Proof.
      intros Hrc s Hs u n E. subst s.
      assert (Hi : inv (initial P)).
      { cbn. split; [reflexivity|]. exists [], []. repeat split; auto using incl_refl. exists []. reflexivity. }
      exact (inv_steps _ _ Hi Hs).
    Qed.

    (* every unit on the stack while a statement runs is in that statement's certificate: the certificate of the
       client statement lists everything that may ever run after import *)
    Theorem running_units_in_cert :
      run_check [] [] [] P = true ->
      forall b F K todo stack t, steps (initial P) (Run b F K todo stack (Some t)) ->
      exists C, In (t_label t, C) all_certs /\ forall k, In k stack -> In k (c_R C).
    Proof.
      intros Hrc b F K todo stack t Hs.
      assert (Hi : inv (initial P)).
      { cbn. split; [reflexivity|]. exists [], []. repeat split; auto using incl_refl. exists []. reflexivity. }
      pose proof (inv_steps _ _ Hi Hs) as H. cbn in H.
      destruct H as (C & F0 & K0 & Hph & _ & _ & Hst & _ & pre & Hpre). exists C. split.
      - rewrite Hpre. apply in_or_app. right. left. reflexivity.
      - rewrite Forall_forall in Hst. exact Hst.
    Qed.
  End WithCert.

  Lemma certs_with_const (pc1 : string -> cert) todo : forall b F K l C,
    In (l, C) (certs_with (fun _ _ _ r => pc1 r) b F K todo) ->
    exists t, In t todo /\ l = t_label t /\ C = pc1 (u_key (t_eager t)).
  Proof.
    induction todo as [|t r IH]; cbn; intros b F K l C H; [contradiction|].
    destruct H as [H|H]; [inversion H; subst; exists t; auto|].
    destruct (IH _ _ _ _ _ H) as (t' & Ht & E1 & E2). exists t'. auto.
  Qed.

  (* with certificates given by statement: while statement [t0] runs, only units of its certificate run *)
  Theorem stmt_runs_in_cert (pc1 : string -> cert) (t0 : tstmt) :
    run_check_with P Bi flags data NR ancT descT (fun _ _ _ r => pc1 r) [] [] [] P = true ->
    (forall t, In t P -> t_label t = t_label t0 -> t = t0) ->
    forall b F K todo stack, steps (initial P) (Run b F K todo stack (Some t0)) ->
    forall k, In k stack -> In k (c_R (pc1 (u_key (t_eager t0)))).
  Proof.
    intros Hrc Huniq b F K todo stack Hs k Hk.
    destruct (running_units_in_cert (fun _ _ _ r => pc1 r) Hrc b F K todo stack t0 Hs) as (C & HC & Hst).
    specialize (Hst k Hk). unfold all_certs in HC.
    destruct (certs_with_const pc1 P [] [] [] _ _ HC) as (t & Ht & E1 & E2).
    symmetry in E1. rewrite (Huniq t Ht E1) in E2. subst C. exact Hst.
  Qed.

  (* ---- concrete runs: [exec] follows the step relation *)
  Lemma exec1_step a s s' : exec1 P Bi flags data NR ancT descT a s = Some s' -> step s s'.
  Proof.
    destruct a; cbn; intros H.
    - destruct s as [b F K todo stack cur|]; [|discriminate].
      destruct todo as [|t r]; [discriminate|]. destruct stack; [|discriminate]. destruct cur; [discriminate|].
      inversion H; subst. constructor.
    - destruct s as [b F K todo stack cur|]; [|discriminate].
      destruct stack; [|discriminate]. destruct cur as [t|]; [|discriminate]. inversion H; subst. constructor.
    - unfold exec_top in H. destruct s as [b F K todo stack cur|]; [|discriminate].
      destruct stack as [|k0 st]; [discriminate|]. destruct (unit_of k0) as [u|] eqn:Hu; [|discriminate].
      destruct (mem k (calls_of b u F K)) eqn:A; [|discriminate].
      destruct (mem k NR) eqn:B; [discriminate|]. destruct (is_unit P k) eqn:D; [|discriminate].
      inversion H; subst. apply (s_call _ _ _ _ _ _ _ b F K todo k0 st cur u k); auto.
      + apply mem_In. exact A.
      + intros X. apply mem_In in X. congruence.
    - unfold exec_top in H. destruct s as [b F K todo stack cur|]; [|discriminate].
      destruct stack as [|k0 st]; [discriminate|]. destruct (unit_of k0) as [u|] eqn:Hu; [|discriminate].
      destruct (mem n (flows_of b u)) eqn:A; [|discriminate].
      inversion H; subst. apply (s_flow _ _ _ _ _ _ _ b F K todo k0 st cur u n); auto. apply mem_In. exact A.
    - unfold exec_top in H. destruct s as [b F K todo stack cur|]; [|discriminate].
      destruct stack as [|k0 st]; [discriminate|]. destruct (unit_of k0) as [u|] eqn:Hu; [|discriminate].
      destruct (mem x (knows_of b u)) eqn:A; [|discriminate].
      inversion H; subst. apply (s_know _ _ _ _ _ _ _ b F K todo k0 st cur u x); auto. apply mem_In. exact A.
    - destruct s as [b F K todo stack cur|]; [|discriminate].
      destruct stack as [|k0 st]; [discriminate|]. inversion H; subst. constructor.
    - unfold exec_top in H. destruct s as [b F K todo stack cur|]; [|discriminate].
      destruct stack as [|k0 st]; [discriminate|]. destruct (unit_of k0) as [u|] eqn:Hu; [|discriminate].
      destruct (existsb (fun l => (l_name l =? n) && load_fails b l) (u_loads u)) eqn:A; [|discriminate].
      inversion H; subst. apply existsb_exists in A. destruct A as (l & Hl & A).
      apply andb_true_iff in A. destruct A as (A1 & A2). apply String.eqb_eq in A1. subst n.
      apply (s_err _ _ _ _ _ _ _ b F K todo k0 st cur u l); auto.
  Qed.

  Lemma exec_steps acts : forall s s', exec P Bi flags data NR ancT descT acts s = Some s' -> steps s s'.
  Proof.
    induction acts as [|a r IH]; cbn; intros s s' H.
    - inversion H; subst. constructor.
    - destruct (exec1 P Bi flags data NR ancT descT a s) as [s1|] eqn:E; [|discriminate].
      pose proof (exec1_step _ _ _ E) as H1. specialize (IH _ _ H).
      clear - H1 IH. induction IH; [econstructor; [constructor|exact H1]|]. econstructor; [apply IHIH; exact H1|exact H].
  Qed.
End Sound.
