(* C11 - the declared set of attributes that the behaviour of a (loaded) LALR parser reads, per class: what
   parse / parse_interactive / scan and the public accessors (Lark.rules, Lark.terminals, get_terminal) look at
   after construction.  The harness validates the declaration on every run: it traces attribute reads of the
   loaded instance during the probe runs (reads must be a subset of these lists), and checks that the attributes
   of the original that are missing after load ([NotRead]) can be deleted from the original without changing any
   probe result.  The typed records of Ser/Serialize.v carry exactly the data attributes listed here (derived
   attributes such as terminals_by_name, _hash, lexer, _callbacks are functions of them).  No proofs here. *)
From Coq Require Import List String Bool.
From LV Require Import Ser.Value Gen.SerializeFields.
Import ListNotations.
Local Open Scope string_scope.

Definition Relevant : list (string * list string) :=
  [ ("Lark", ["parser"; "rules"; "options"; "lexer_conf"; "terminals"; "_callbacks"; "_terminals_dict"]);
    ("ParsingFrontend", ["lexer_conf"; "parser_conf"; "parser"; "options"; "lexer"; "skip_lexer"]);
    ("LALR_Parser", ["_parse_table"; "parser"]);
    ("ParseTable", ["states"; "start_states"; "end_states"]);
    ("LexerConf", ["terminals"; "ignore"; "g_regex_flags"; "use_bytes"; "lexer_type"; "terminals_by_name";
                   "callbacks"; "re_module"; "postlex"; "skip_validation"]);
    ("ParserConf", ["rules"; "start"; "parser_type"; "callbacks"]);
    ("Rule", ["origin"; "expansion"; "order"; "alias"; "options"; "_hash"]);
    ("RuleOptions", ["keep_all_tokens"; "expand1"; "priority"; "template_source"; "empty_indices"]);
    ("Terminal", ["name"; "filter_out"]);
    ("NonTerminal", ["name"]);
    ("TerminalDef", ["name"; "pattern"; "priority"]);
    ("PatternStr", ["value"; "flags"; "raw"]);
    ("PatternRE", ["value"; "flags"; "raw"; "_width"]) ].

(* attributes a directly built instance has and a loaded one lacks; never read after construction *)
Definition NotRead : list (string * list string) :=
  [ ("Lark", ["grammar"; "source_grammar"; "ignore_tokens"]);
    ("LALR_Parser", ["parser_conf"]);
    ("LexerConf", ["strict"]) ].

Definition lookup_list (k : string) (l : list (string * list string)) : list string :=
  match aget k l with Some x => x | None => [] end.
(* the _deserialize hook of Pattern is inherited by both pattern classes *)
Definition hook_of (cls : string) : list string :=
  if cls =? "LexerConf" then hook_LexerConf
  else if cls =? "Rule" then hook_Rule
  else if (cls =? "PatternStr") || (cls =? "PatternRE") then hook_Pattern
  else [].
(* where a loaded object gets attribute [f] from: the serialised fields, a _deserialize hook, or the code that
   runs on load (constructors, Lark._load, _deserialize_lexer_conf, _deserialize_parsing_frontend) *)
Definition restored_by (cls f : string) : bool :=
  mem_str f (lookup_list cls serialize_classes) || mem_str f (hook_of cls) ||
  mem_str f (lookup_list cls assigned_on_load).
Definition fields_restored_b : bool :=
  forallb (fun cf => forallb (restored_by (fst cf)) (snd cf)) Relevant.

(* every option is either re-suppliable at load time or belongs to the construction-time options, whose effect is
   frozen in the saved grammar part (rules, terminals, table) *)
Definition construction_options : list string :=
  ["strict"; "keep_all_tokens"; "cache"; "cache_grammar"; "parser"; "lexer"; "start"; "priority"; "ambiguity";
   "maybe_placeholders"; "edit_terminals"; "ordered_sets"; "import_paths"; "source_path"].
Definition options_partition_b : bool :=
  forallb (fun k => xorb (mem_str k load_allowed_options) (mem_str k construction_options)) (map fst option_defaults) &&
  forallb (fun k => mem_str k (map fst option_defaults)) (load_allowed_options ++ construction_options).
