(* C11, stand-alone clause - the generated module as a program: an ordered list of top-level statements, each with
   the names it binds, the hash of its normalised AST, the global names it references anywhere ([s_refs]) and the
   names it evaluates when it runs at import time ([s_eager]).  The list itself is regenerated from the lark sources
   (Gen/Standalone.v) by running the tool's own extract_sections / strip_docstrings.  Definitions only. *)
From Coq Require Import List String Bool.
Import ListNotations.
Local Open Scope string_scope.
Local Open Scope list_scope.

Record sdef := mkSDef { s_label : string; s_names : list string; s_kind : string; s_file : string; s_hash : string;
                        s_refs : list string; s_eager : list string }.

Fixpoint mem (x : string) (l : list string) : bool :=
  match l with [] => false | y :: r => if String.eqb x y then true else mem x r end.

Definition provided (p : list sdef) : list string := flat_map s_names p.

(* global names referenced somewhere in the program that neither the program nor the builtins provide *)
Definition unprovided (builtins : list string) (p : list sdef) : list (string * string) :=
  flat_map (fun d => map (fun r => (r, s_label d))
                         (filter (fun r => negb (mem r (provided p)) && negb (mem r builtins)) (s_refs d))) p.
(* closed up to a declared list of names that only construction / serialisation code uses *)
Definition closed_program (builtins allowed : list string) (p : list sdef) : bool :=
  forallb (fun rl => mem (fst rl) allowed) (unprovided builtins p).

(* import-time order: whatever a statement evaluates when it runs is already bound (or builtin) *)
Fixpoint ordered_from (seen : list string) (p : list sdef) : bool :=
  match p with
  | [] => true
  | d :: r => forallb (fun x => mem x seen) (s_eager d) && ordered_from (s_names d ++ seen) r
  end.
Definition first_unordered (builtins : list string) (p : list sdef) : list (string * string) :=
  (fix go seen p := match p with
                    | [] => []
                    | d :: r => map (fun x => (x, s_label d)) (filter (fun x => negb (mem x seen)) (s_eager d))
                                ++ go (s_names d ++ seen) r
                    end) builtins p.
Definition ordered_program (builtins : list string) (p : list sdef) : bool := ordered_from builtins p.

(* the program as a finite map: the last statement binding a name wins (Python rebinding, e.g. Shift = 0) *)
Fixpoint lookup (n : string) (p : list sdef) : option sdef :=
  match p with
  | [] => None
  | d :: r => match lookup n r with
              | Some x => Some x
              | None => if mem n (s_names d) then Some d else None
              end
  end.

(* names reachable from the entry point through references: bounded breadth-first closure *)
Definition step (p : list sdef) (cl : list string) : list string :=
  fold_left (fun acc n => match lookup n p with
                          | Some d => fold_left (fun a r => if mem r a then a else a ++ [r]) (s_refs d) acc
                          | None => acc
                          end) cl cl.
Fixpoint closure (fuel : nat) (p : list sdef) (cl : list string) : list string :=
  match fuel with O => cl | S f => closure f p (step p cl) end.
(* [cl] contains the entry point and is closed under references *)
Definition closure_ok_b (refs_of : string -> option (list string)) (cl : list string) (entry : string) : bool :=
  mem entry cl &&
  forallb (fun m => match refs_of m with Some rs => forallb (fun r => mem r cl) rs | None => true end) cl.

(* declared: names the extracted code mentions but the stand-alone module does not define.  They occur only in
   code the load path never runs - grammar construction and cache handling inside Lark.__init__, LALR analysis,
   serialisation (_serialize, Enumerator: only Serialize.serialize / SerializeMemoizer.__init__ / ParseTableBase.serialize
   use them), the optional interegular collision check (guarded by try / except NameError and skip_validation). *)
Definition declared_unprovided : list string :=
  ["_serialize"; "Enumerator"; "LALR_Analyzer"; "FS"; "FromPackageLoader"; "Grammar"; "_construct_parsing_frontend";
   "getpass"; "io"; "load_grammar"; "os"; "sha256_digest"; "tempfile"; "types"; "verify_used_files"; "hashlib";
   "interegular"].
