(* C11 - executable model of lark's save / load machinery:
     lark/utils.py      Serialize.serialize / deserialize, _serialize, _deserialize, SerializeMemoizer, Enumerator
     lark/parsers/lalr_analysis.py   ParseTableBase.serialize / deserialize
     lark/lark.py       Lark.save, Lark._load (option merging through _LOAD_ALLOWED_OPTIONS),
                        Lark._deserialize_lexer_conf, LarkOptions.__init__
   Every __serialize_fields__ / __serialize_namespace__ list, the load-allowed options, the option defaults, the
   re-supply list and the shift / reduce tags come from Gen/SerializeFields.v (regenerated from the source on every
   run).  The typed records below hold exactly the attributes the parser's behaviour reads (see [Relevant] in
   Ser/Relevant.v); the serialised form lives in the untyped universe [value].  No proofs in this file. *)
From Coq Require Import ZArith List Bool String Ascii.
From LV Require Import Ser.Value Gen.SerializeFields.
Import ListNotations.
Local Open Scope string_scope.
Local Open Scope list_scope.

(* ------------------------------------------------------------------ typed objects *)
(* Pattern.flags is a frozenset in a freshly built parser; utils._serialize turns it into a list.  What comes
   back on load depends on the Pattern._deserialize hook (regenerated flag [pattern_flags_refrozen]). *)
Inductive flagsv := FSet (l : list string) | FList (l : list string).
Definition flags_elems (f : flagsv) : list string := match f with FSet l | FList l => l end.
(* PatternRE._width: class default None until computed, then get_regexp_width's list / tuple *)
Inductive widthv := WUnset | WList (lo hi : Z) | WTuple (lo hi : Z).
Inductive pattern :=
| PatStr (v : string) (fl : flagsv) (raw : option string)
| PatRE (v : string) (fl : flagsv) (raw : option string) (w : widthv).
Record termdef := mkTD { td_name : string; td_pattern : pattern; td_priority : Z }.
Inductive sym := T (name : string) (filter_out : bool) | NT (name : string).
Record rule_options := mkRO { ro_keep_all_tokens : bool; ro_expand1 : bool; ro_priority : option Z;
                              ro_template_source : option string; ro_empty_indices : list bool }.
Record rule := mkRule { r_origin : sym; r_expansion : list sym; r_order : Z; r_alias : option string;
                        r_options : rule_options }.
Inductive action := Shift (s : Z) | Reduce (r : rule).
(* IntParseTable *)
Record table := mkTable { t_states : list (Z * list (string * action));
                          t_start : list (string * Z); t_end : list (string * Z) }.
Record lexer_conf := mkLC { lc_terminals : list termdef; lc_ignore : list string; lc_g_regex_flags : Z;
                            lc_use_bytes : bool; lc_lexer_type : string;
                            (* not serialised, taken from the options: *)
                            lc_callbacks : value; lc_re_module : bool (* true = regex, false = re *);
                            lc_postlex : value }.
Record parser_conf := mkPC { pc_rules : list rule; pc_start : list string; pc_parser_type : string }.
Record frontend := mkFE { fe_lexer_conf : lexer_conf; fe_parser_conf : parser_conf; fe_parser : table }.
Definition options := list (string * value).
Record lark_inst := mkLark { li_parser : frontend; li_rules : list rule; li_options : options }.

(* ------------------------------------------------------------------ Enumerator (utils.py) *)
Section Enum.
  Context {A : Type} (eqb : A -> A -> bool).
  Fixpoint find_index (x : A) (e : list A) : option nat :=
    match e with
    | [] => None
    | y :: r => if eqb x y then Some O else option_map S (find_index x r)
    end.
  (* get(): if item not in self.enums: self.enums[item] = len(self.enums); return self.enums[item] *)
  Definition enum_get (e : list A) (x : A) : nat * list A :=
    match find_index x e with
    | Some n => (n, e)
    | None => (List.length e, e ++ [x])
    end.
End Enum.
(* reversed(): {v: k for k, v in enums.items()} as a dict value *)
Fixpoint reversed_from {A} (f : A -> value) (i : nat) (e : list A) : list (value * value) :=
  match e with
  | [] => []
  | x :: r => (VInt (Z.of_nat i), f x) :: reversed_from f (S i) r
  end.
Definition enum_reversed {A} (f : A -> value) (e : list A) : list (value * value) := reversed_from f 0 e.

(* ------------------------------------------------------------------ memoised objects *)
Inductive mentry := MTerm (t : termdef) | MRule (r : rule).
(* Symbol.__eq__: same kind and same name (filter_out is not compared) *)
Definition sym_keyeqb (a b : sym) : bool :=
  match a, b with
  | T n _, T m _ => String.eqb n m
  | NT n, NT m => String.eqb n m
  | _, _ => false
  end.
(* dictionary key of a memoised object: Rule.__eq__/__hash__ = (origin, expansion); TerminalDef has identity
   semantics, which inside one Lark instance coincides with its (unique) name *)
Definition mentry_keyeqb (a b : mentry) : bool :=
  match a, b with
  | MTerm t, MTerm u => String.eqb (td_name t) (td_name u)
  | MRule r, MRule s => sym_keyeqb (r_origin r) (r_origin s) && list_eqb sym_keyeqb (r_expansion r) (r_expansion s)
  | _, _ => false
  end.
Definition memo := list mentry.
(* Serialize.serialize, first branch: {'@': memo.memoized.get(self)} *)
Definition ser_memoized (x : mentry) (m : memo) : value * memo :=
  let (n, m') := enum_get mentry_keyeqb m x in (VRef n, m').

(* ------------------------------------------------------------------ Serialize.serialize, generic part *)
(* res = {f: _serialize(getattr(self, f), memo) for f in fields}; res['__type__'] = type(self).__name__
   [getattr f] yields the already serialised attribute (None = AttributeError). *)
Fixpoint ser_fields (fields : list string) (getattr : string -> option value) : option (list (string * value)) :=
  match fields with
  | [] => Some []
  | f :: fs => match getattr f with
               | Some v => match ser_fields fs getattr with
                           | Some r => Some ((f, v) :: r)
                           | None => None
                           end
               | None => None
               end
  end.
Definition ser_obj (cls : string) (fields : list string) (getattr : string -> option value) : option value :=
  option_map (VObj cls) (ser_fields fields getattr).

(* the same with the memo threaded through the attributes in field order *)
Definition SM (A : Type) := memo -> option (A * memo).
Fixpoint ser_fields_m (fields : list string) (getattr : string -> SM value) : SM (list (string * value)) :=
  fun m =>
  match fields with
  | [] => Some ([], m)
  | f :: fs => match getattr f m with
               | Some (v, m1) => match ser_fields_m fs getattr m1 with
                                 | Some (r, m2) => Some ((f, v) :: r, m2)
                                 | None => None
                                 end
               | None => None
               end
  end.
Definition ser_obj_m (cls : string) (fields : list string) (getattr : string -> SM value) : SM value :=
  fun m => match ser_fields_m fields getattr m with
           | Some (r, m') => Some (VObj cls r, m')
           | None => None
           end.
Definition pure_m (o : option value) : SM value := fun m => option_map (fun v => (v, m)) o.

(* ------------------------------------------------------------------ full (memo = None) serialisers *)
Definition ser_flags (f : flagsv) : value := VList (map VStr (flags_elems f)).   (* list(frozenset) / list *)
Definition ser_width (w : widthv) : value :=
  match w with
  | WUnset => VNone
  | WList lo hi => VList [VInt lo; VInt hi]
  | WTuple lo hi => VTuple [VInt lo; VInt hi]
  end.
Definition pattern_cls (p : pattern) : string := match p with PatStr _ _ _ => "PatternStr" | PatRE _ _ _ _ => "PatternRE" end.
Definition pattern_getattr (p : pattern) (f : string) : option value :=
  match p with
  | PatStr v fl raw =>
      if f =? "value" then Some (VStr v) else if f =? "flags" then Some (ser_flags fl)
      else if f =? "raw" then Some (of_ostr raw) else None
  | PatRE v fl raw w =>
      if f =? "value" then Some (VStr v) else if f =? "flags" then Some (ser_flags fl)
      else if f =? "raw" then Some (of_ostr raw) else if f =? "_width" then Some (ser_width w) else None
  end.
Definition ser_pattern (p : pattern) : option value :=
  match p with
  | PatStr _ _ _ => ser_obj "PatternStr" fields_PatternStr (pattern_getattr p)
  | PatRE _ _ _ _ => ser_obj "PatternRE" fields_PatternRE (pattern_getattr p)
  end.
Definition termdef_getattr (t : termdef) (f : string) : option value :=
  if f =? "name" then Some (VStr (td_name t)) else if f =? "pattern" then ser_pattern (td_pattern t)
  else if f =? "priority" then Some (VInt (td_priority t)) else None.
Definition ser_termdef_full (t : termdef) : option value := ser_obj "TerminalDef" fields_TerminalDef (termdef_getattr t).

Definition sym_getattr (s : sym) (f : string) : option value :=
  match s with
  | T n fo => if f =? "name" then Some (VStr n) else if f =? "filter_out" then Some (VBool fo) else None
  | NT n => if f =? "name" then Some (VStr n) else None
  end.
Definition ser_sym (s : sym) : option value :=
  match s with
  | T _ _ => ser_obj "Terminal" fields_Terminal (sym_getattr s)
  | NT n => Some (VObj "NonTerminal" [("name", VStr n)])        (* NonTerminal.serialize (custom) *)
  end.
Definition ro_getattr (o : rule_options) (f : string) : option value :=
  if f =? "keep_all_tokens" then Some (VBool (ro_keep_all_tokens o))
  else if f =? "expand1" then Some (VBool (ro_expand1 o))
  else if f =? "priority" then Some (of_oint (ro_priority o))
  else if f =? "template_source" then Some (of_ostr (ro_template_source o))
  else if f =? "empty_indices" then Some (VTuple (map VBool (ro_empty_indices o)))
  else None.
Definition ser_rule_options (o : rule_options) : option value := ser_obj "RuleOptions" fields_RuleOptions (ro_getattr o).
Definition rule_getattr (r : rule) (f : string) : option value :=
  if f =? "origin" then ser_sym (r_origin r)
  else if f =? "expansion" then option_map VList (omap ser_sym (r_expansion r))
  else if f =? "order" then Some (VInt (r_order r))
  else if f =? "alias" then Some (of_ostr (r_alias r))
  else if f =? "options" then ser_rule_options (r_options r)
  else None.
Definition ser_rule_full (r : rule) : option value := ser_obj "Rule" fields_Rule (rule_getattr r).
Definition ser_mentry_full (e : mentry) : option value :=
  match e with MTerm t => ser_termdef_full t | MRule r => ser_rule_full r end.
Definition mentry_cls (e : mentry) : string := match e with MTerm _ => "TerminalDef" | MRule _ => "Rule" end.

(* serialize(memo) of an object of a memoised class: a reference if its class is in types_to_memoize *)
Definition ser_mentry (e : mentry) : SM value :=
  fun m => if mem_str (mentry_cls e) memo_types then Some (ser_memoized e m)
           else option_map (fun v => (v, m)) (ser_mentry_full e).
Fixpoint ser_list_m {A} (f : A -> SM value) (l : list A) : SM (list value) :=
  fun m =>
  match l with
  | [] => Some ([], m)
  | x :: r => match f x m with
              | Some (v, m1) => match ser_list_m f r m1 with
                                | Some (vs, m2) => Some (v :: vs, m2)
                                | None => None
                                end
              | None => None
              end
  end.
Definition ser_mlist {A} (inj : A -> mentry) (l : list A) : SM value :=
  fun m => match ser_list_m (fun x => ser_mentry (inj x)) l m with
           | Some (vs, m') => Some (VList vs, m')
           | None => None
           end.

(* ------------------------------------------------------------------ ParseTableBase.serialize *)
Definition ser_action (a : action) : SM value :=
  fun m =>
  match a with
  | Reduce r => match ser_mentry (MRule r) m with
                | Some (v, m') => Some (VTuple [VInt reduce_tag_ser; v], m')
                | None => None
                end
  | Shift s => Some (VTuple [VInt shift_tag_ser; VInt s], m)
  end.
(* {tokens.get(token): (tag, arg) for token, (action, arg) in actions.items()} : key first, then value *)
Fixpoint ser_actions (acts : list (string * action)) (tk : list string) : SM (list (value * value) * list string) :=
  fun m =>
  match acts with
  | [] => Some (([], tk), m)
  | (tok, a) :: r =>
      let (i, tk1) := enum_get String.eqb tk tok in
      match ser_action a m with
      | Some (v, m1) => match ser_actions r tk1 m1 with
                        | Some ((d, tk2), m2) => Some (((VInt (Z.of_nat i), v) :: d, tk2), m2)
                        | None => None
                        end
      | None => None
      end
  end.
Fixpoint ser_states (sts : list (Z * list (string * action))) (tk : list string)
  : SM (list (value * value) * list string) :=
  fun m =>
  match sts with
  | [] => Some (([], tk), m)
  | (s, acts) :: r =>
      match ser_actions acts tk m with
      | Some ((d, tk1), m1) => match ser_states r tk1 m1 with
                               | Some ((ds, tk2), m2) => Some (((VInt s, VDict d) :: ds, tk2), m2)
                               | None => None
                               end
      | None => None
      end
  end.
Definition ser_name_map (l : list (string * Z)) : value := VDict (map (fun kv => (VStr (fst kv), VInt (snd kv))) l).
Definition ser_table (t : table) : SM value :=
  fun m =>
  match ser_states (t_states t) [] m with
  | Some ((sts, tk), m') =>
      Some (VDict [(VStr "tokens", VDict (enum_reversed VStr tk));
                   (VStr "states", VDict sts);
                   (VStr "start_states", ser_name_map (t_start t));
                   (VStr "end_states", ser_name_map (t_end t))], m')
  | None => None
  end.

(* ------------------------------------------------------------------ the instance *)
Definition lexer_conf_getattr (c : lexer_conf) (f : string) : SM value :=
  if f =? "terminals" then ser_mlist MTerm (lc_terminals c)
  else if f =? "ignore" then pure_m (Some (VList (map VStr (lc_ignore c))))
  else if f =? "g_regex_flags" then pure_m (Some (VInt (lc_g_regex_flags c)))
  else if f =? "use_bytes" then pure_m (Some (VBool (lc_use_bytes c)))
  else if f =? "lexer_type" then pure_m (Some (VStr (lc_lexer_type c)))
  else pure_m None.
Definition ser_lexer_conf (c : lexer_conf) : SM value := ser_obj_m "LexerConf" fields_LexerConf (lexer_conf_getattr c).
Definition parser_conf_getattr (c : parser_conf) (f : string) : SM value :=
  if f =? "rules" then ser_mlist MRule (pc_rules c)
  else if f =? "start" then pure_m (Some (VList (map VStr (pc_start c))))
  else if f =? "parser_type" then pure_m (Some (VStr (pc_parser_type c)))
  else pure_m None.
Definition ser_parser_conf (c : parser_conf) : SM value := ser_obj_m "ParserConf" fields_ParserConf (parser_conf_getattr c).
Definition frontend_getattr (fe : frontend) (f : string) : SM value :=
  if f =? "lexer_conf" then ser_lexer_conf (fe_lexer_conf fe)
  else if f =? "parser_conf" then ser_parser_conf (fe_parser_conf fe)
  else if f =? "parser" then ser_table (fe_parser fe)           (* LALR_Parser.serialize = table.serialize *)
  else pure_m None.
Definition ser_frontend (fe : frontend) : SM value :=
  ser_obj_m "ParsingFrontend" fields_ParsingFrontend (frontend_getattr fe).
Definition ser_options (o : options) : value := VDict (map (fun kv => (VStr (fst kv), snd kv)) o).  (* LarkOptions.serialize *)
Definition lark_getattr (i : lark_inst) (f : string) : SM value :=
  if f =? "parser" then ser_frontend (li_parser i)
  else if f =? "rules" then ser_mlist MRule (li_rules i)
  else if f =? "options" then pure_m (Some (ser_options (li_options i)))
  else pure_m None.
Definition ser_lark (i : lark_inst) : SM value := ser_obj_m "Lark" fields_Lark (lark_getattr i).

(* SerializeMemoizer.serialize: _serialize(self.memoized.reversed(), None) *)
Fixpoint ser_memo_from (n : nat) (m : memo) : option (list (value * value)) :=
  match m with
  | [] => Some []
  | e :: r => match ser_mentry_full e with
              | Some v => match ser_memo_from (S n) r with
                          | Some d => Some ((VInt (Z.of_nat n), v) :: d)
                          | None => None
                          end
              | None => None
              end
  end.
Definition ser_memo (m : memo) : option value := option_map VDict (ser_memo_from 0 m).

(* Serialize.memo_serialize *)
Definition memo_serialize (i : lark_inst) : option (value * value) :=
  match ser_lark i [] with
  | Some (data, m) => match ser_memo m with Some mj => Some (data, mj) | None => None end
  | None => None
  end.

(* replace the value stored under a string key, keeping its position *)
Fixpoint dset (k : string) (v : value) (d : list (value * value)) : list (value * value) :=
  match d with
  | [] => [(VStr k, v)]
  | (VStr k', v') :: r => if String.eqb k k' then (VStr k, v) :: r else (VStr k', v') :: dset k v r
  | kv :: r => kv :: dset k v r
  end.
Definition drop_options (excl : list string) (o : options) : options :=
  filter (fun kv => negb (mem_str (fst kv) excl)) o.

(* Lark.save(f, exclude_options): the pickled object {'data': data, 'memo': m} (pickle itself is trusted) *)
Definition save (i : lark_inst) (excl : list string) : option (value * value) :=
  match memo_serialize i with
  | Some (VDict d, mj) =>
      match excl with
      | [] => Some (VDict d, mj)
      | _ => Some (VDict (dset "options" (ser_options (drop_options excl (li_options i))) d), mj)
      end
  | _ => None
  end.

(* ------------------------------------------------------------------ Serialize.deserialize, generic part *)
(* for f in fields: setattr(inst, f, ... data[f] ...)   (KeyError when the key is missing) *)
Fixpoint deser_fields (fields : list string) (d : list (value * value)) : option (list (string * value)) :=
  match fields with
  | [] => Some []
  | f :: fs => match dget f d with
               | Some v => match deser_fields fs d with Some r => Some ((f, v) :: r) | None => None end
               | None => None
               end
  end.
Definition type_of (d : list (value * value)) : option string := obind (dget TYPE_KEY d) as_str.
(* utils._deserialize on a dict carrying '__type__': the class must be in the caller's namespace *)
Definition typed_dict (ns : list string) (v : value) : option (string * list (value * value)) :=
  match v with
  | VDict d => match type_of d with
               | Some ty => if mem_str ty ns then Some (ty, d) else None
               | None => None
               end
  | _ => None
  end.

Definition deser_flags (v : value) : option flagsv :=
  match v with
  | VList l => match omap as_str l with
               | Some ss => Some (if pattern_flags_refrozen then FSet ss else FList ss)
               | None => None
               end
  | _ => None
  end.
Definition deser_width (v : value) : option widthv :=
  match v with
  | VNone => Some WUnset
  | VList [VInt lo; VInt hi] => Some (WList lo hi)
  | VTuple [VInt lo; VInt hi] => Some (WTuple lo hi)
  | _ => None
  end.
Definition attr (k : string) (a : list (string * value)) : option value := aget k a.
Definition deser_pattern (v : value) : option pattern :=
  match typed_dict ns_TerminalDef v with
  | Some (ty, d) =>
      if ty =? "PatternStr" then
        obind (deser_fields fields_PatternStr d) (fun a =>
        obind (obind (attr "value" a) as_str) (fun pv =>
        obind (obind (attr "flags" a) deser_flags) (fun fl =>
        obind (obind (attr "raw" a) as_ostr) (fun raw => Some (PatStr pv fl raw)))))
      else if ty =? "PatternRE" then
        obind (deser_fields fields_PatternRE d) (fun a =>
        obind (obind (attr "value" a) as_str) (fun pv =>
        obind (obind (attr "flags" a) deser_flags) (fun fl =>
        obind (obind (attr "raw" a) as_ostr) (fun raw =>
        (* _width: class attribute None unless restored *)
        obind (match attr "_width" a with Some w => deser_width w | None => Some WUnset end) (fun w =>
        Some (PatRE pv fl raw w))))))
      else None
  | None => None
  end.
Definition deser_termdef_full (d : list (value * value)) : option termdef :=
  obind (deser_fields fields_TerminalDef d) (fun a =>
  obind (obind (attr "name" a) as_str) (fun n =>
  obind (obind (attr "pattern" a) deser_pattern) (fun p =>
  obind (obind (attr "priority" a) as_int) (fun pr => Some (mkTD n p pr))))).
Definition deser_sym (v : value) : option sym :=
  match typed_dict ns_Rule v with
  | Some (ty, d) =>
      if ty =? "Terminal" then
        obind (deser_fields fields_Terminal d) (fun a =>
        obind (obind (attr "name" a) as_str) (fun n =>
        obind (obind (attr "filter_out" a) as_bool) (fun fo => Some (T n fo))))
      else if ty =? "NonTerminal" then
        obind (deser_fields fields_NonTerminal d) (fun a =>
        obind (obind (attr "name" a) as_str) (fun n => Some (NT n)))
      else None
  | None => None
  end.
Definition deser_rule_options (v : value) : option rule_options :=
  match typed_dict ns_Rule v with
  | Some (ty, d) =>
      if ty =? "RuleOptions" then
        obind (deser_fields fields_RuleOptions d) (fun a =>
        obind (obind (attr "keep_all_tokens" a) as_bool) (fun k =>
        obind (obind (attr "expand1" a) as_bool) (fun e =>
        obind (obind (attr "priority" a) as_oint) (fun p =>
        obind (obind (attr "template_source" a) as_ostr) (fun ts =>
        obind (match attr "empty_indices" a with Some (VTuple l) => omap as_bool l | _ => None end) (fun ei =>
        Some (mkRO k e p ts ei)))))))
      else None
  | None => None
  end.
Definition deser_rule_full (d : list (value * value)) : option rule :=
  obind (deser_fields fields_Rule d) (fun a =>
  obind (obind (attr "origin" a) deser_sym) (fun o =>
  obind (obind (obind (attr "expansion" a) as_list) (omap deser_sym)) (fun ex =>
  obind (obind (attr "order" a) as_int) (fun ord =>
  obind (obind (attr "alias" a) as_ostr) (fun al =>
  obind (obind (attr "options" a) deser_rule_options) (fun op => Some (mkRule o ex ord al op))))))).

(* SerializeMemoizer.deserialize(memo_json, {'Rule': Rule, 'TerminalDef': TerminalDef}, {}) *)
Definition memo_tbl := list (Z * mentry).
Definition deser_mentry (v : value) : option mentry :=
  match typed_dict memo_namespace v with
  | Some (ty, d) =>
      if ty =? "TerminalDef" then option_map MTerm (deser_termdef_full d)
      else if ty =? "Rule" then option_map MRule (deser_rule_full d)
      else None
  | None => None
  end.
Fixpoint deser_memo (d : list (value * value)) : option memo_tbl :=
  match d with
  | [] => Some []
  | (VInt k, v) :: r => match deser_mentry v with
                        | Some e => match deser_memo r with Some t => Some ((k, e) :: t) | None => None end
                        | None => None
                        end
  | _ => None
  end.
Fixpoint tbl_get (k : Z) (t : memo_tbl) : option mentry :=
  match t with
  | [] => None
  | (k', e) :: r => if Z.eqb k k' then Some e else tbl_get k r
  end.
(* memo[data['@']] *)
Definition deser_ref (t : memo_tbl) (v : value) : option mentry :=
  match v with
  | VDict d => match dget REF_KEY d with
               | Some (VInt n) => tbl_get n t
               | _ => None
               end
  | _ => None
  end.
(* Rule.deserialize(data, memo) / _deserialize(data, {TerminalDef}, memo): a reference, or a full object *)
Definition deser_rule (t : memo_tbl) (v : value) : option rule :=
  match v with
  | VDict d => if dhas REF_KEY d then match deser_ref t v with Some (MRule r) => Some r | _ => None end
               else deser_rule_full d
  | _ => None
  end.
Definition deser_termdef (t : memo_tbl) (v : value) : option termdef :=
  match v with
  | VDict d => if dhas TYPE_KEY d
               then match typed_dict ns_LexerConf v with Some (_, d') => deser_termdef_full d' | None => None end
               else match deser_ref t v with Some (MTerm x) => Some x | _ => None end
  | _ => None
  end.

(* ------------------------------------------------------------------ ParseTableBase.deserialize *)
Definition deser_action (t : memo_tbl) (v : value) : option action :=
  match v with
  | VTuple [VInt tag; arg] =>
      if Z.eqb tag reduce_tag_deser then option_map Reduce (deser_rule t arg)
      else match arg with VInt s => Some (Shift s) | _ => None end
  | _ => None
  end.
Fixpoint deser_actions (t : memo_tbl) (tokens : list (value * value)) (d : list (value * value))
  : option (list (string * action)) :=
  match d with
  | [] => Some []
  | (VInt k, v) :: r =>
      match obind (dgeti k tokens) as_str, deser_action t v, deser_actions t tokens r with
      | Some tok, Some a, Some rest => Some ((tok, a) :: rest)
      | _, _, _ => None
      end
  | _ => None
  end.
Fixpoint deser_states (t : memo_tbl) (tokens : list (value * value)) (d : list (value * value))
  : option (list (Z * list (string * action))) :=
  match d with
  | [] => Some []
  | (VInt s, VDict acts) :: r =>
      match deser_actions t tokens acts, deser_states t tokens r with
      | Some a, Some rest => Some ((s, a) :: rest)
      | _, _ => None
      end
  | _ => None
  end.
Fixpoint deser_name_map (d : list (value * value)) : option (list (string * Z)) :=
  match d with
  | [] => Some []
  | (VStr k, VInt s) :: r => option_map (cons (k, s)) (deser_name_map r)
  | _ => None
  end.
Definition deser_table (t : memo_tbl) (v : value) : option table :=
  obind (as_dict v) (fun d =>
  obind (obind (dget "tokens" d) as_dict) (fun tokens =>
  obind (obind (obind (dget "states" d) as_dict) (deser_states t tokens)) (fun sts =>
  obind (obind (obind (dget "start_states" d) as_dict) deser_name_map) (fun st =>
  obind (obind (obind (dget "end_states" d) as_dict) deser_name_map) (fun en =>
  Some (mkTable sts st en)))))).

(* ------------------------------------------------------------------ LarkOptions.__init__ *)
Definition is_bool (v : value) : bool := match v with VBool _ => true | _ => false end.
Definition norm_option (o : options) (nd : string * value) : string * value :=
  let (name, default) := nd in
  let v := match aget name o with
           | Some v => if is_bool default && negb (mem_str name no_bool_coercion) then VBool (truthy v) else v
           | None => default
           end in
  (name, if name =? "start" then match v with VStr s => VList [VStr s] | _ => v end else v).
(* unknown option names raise ConfigurationError *)
Definition lark_options_init (o : options) : option options :=
  if forallb (fun kv => mem_str (fst kv) (map fst option_defaults)) o
  then Some (map (norm_option o) option_defaults) else None.
Definition opt (k : string) (o : options) : option value := aget k o.

(* options.update(kwargs) *)
Fixpoint aset (k : string) (v : value) (o : options) : options :=
  match o with
  | [] => [(k, v)]
  | (k', v') :: r => if String.eqb k k' then (k, v) :: r else (k', v') :: aset k v r
  end.
Definition aupdate (o kw : options) : options := fold_left (fun acc kv => aset (fst kv) (snd kv) acc) kw o.

(* ------------------------------------------------------------------ LexerConf on load / on construction *)
Definition apply_kind (k : resupply_kind) (v : value) : value :=
  match k with
  | RPlain => v
  | ROrEmptyDict => if truthy v then v else VDict []
  | RModuleChoice => VBool (truthy v)
  end.
(* value of attribute [a] of the LexerConf after Lark._deserialize_lexer_conf: re-supplied from the options if
   the source assigns it, otherwise whatever LexerConf.deserialize restored ([restored] = None: not set at all) *)
Definition lc_attr_after_load (a : string) (restored : option value) (o : options) : option value :=
  match aget a resupply_LexerConf with
  | Some (k, oname) => option_map (apply_kind k) (opt oname o)
  | None => restored
  end.
(* attribute values the constructor call in Lark.__init__ passes:
   LexerConf(self.terminals, re_module, self.ignore_tokens, self.options.postlex, self.options.lexer_callbacks,
             self.options.g_regex_flags, use_bytes=self.options.use_bytes, strict=...)  with callbacks or {} *)
Definition lc_attr_at_build (a : string) (o : options) : option value :=
  if a =? "callbacks" then option_map (apply_kind ROrEmptyDict) (opt "lexer_callbacks" o)
  else if a =? "re_module" then option_map (apply_kind RModuleChoice) (opt "regex" o)
  else if a =? "use_bytes" then opt "use_bytes" o
  else if a =? "g_regex_flags" then opt "g_regex_flags" o
  else if a =? "postlex" then opt "postlex" o
  else None.
Definition mk_lexer_conf (terms : list termdef) (ign : list string) (lt : string)
           (attr_of : string -> option value) : option lexer_conf :=
  obind (obind (attr_of "g_regex_flags") as_int) (fun gf =>
  obind (obind (attr_of "use_bytes") as_bool) (fun ub =>
  obind (attr_of "callbacks") (fun cb =>
  obind (obind (attr_of "re_module") as_bool) (fun rm =>
  obind (attr_of "postlex") (fun pl => Some (mkLC terms ign gf ub lt cb rm pl)))))).

Definition deser_lexer_conf (t : memo_tbl) (o : options) (v : value) : option lexer_conf :=
  match v with
  | VDict d =>
      obind (deser_fields fields_LexerConf d) (fun a =>
      obind (obind (obind (attr "terminals" a) as_list) (omap (deser_termdef t))) (fun terms =>
      obind (obind (obind (attr "ignore" a) as_list) (omap as_str)) (fun ign =>
      obind (obind (attr "lexer_type" a) as_str) (fun lt =>
      mk_lexer_conf terms ign lt (fun x => lc_attr_after_load x (attr x a) o)))))
  | _ => None
  end.
Definition deser_parser_conf (t : memo_tbl) (v : value) : option parser_conf :=
  match v with
  | VDict d =>
      obind (deser_fields fields_ParserConf d) (fun a =>
      obind (obind (obind (attr "rules" a) as_list) (omap (deser_rule t))) (fun rules =>
      obind (obind (obind (attr "start" a) as_list) (omap as_str)) (fun st =>
      obind (obind (attr "parser_type" a) as_str) (fun pt => Some (mkPC rules st pt)))))
  | _ => None
  end.

Fixpoint to_options (d : list (value * value)) : option options :=
  match d with
  | [] => Some []
  | (VStr k, v) :: r => option_map (cons (k, v)) (to_options r)
  | _ => None
  end.

(* ------------------------------------------------------------------ Lark._load(f, **kwargs) *)
Definition kw_rejected (kw : options) : bool :=
  existsb (fun kv => negb (mem_str (fst kv) load_allowed_options) && mem_str (fst kv) (map fst option_defaults)) kw.
Definition load (dm : value * value) (kw : options) : option lark_inst :=
  let (data, memo_json) := dm in
  obind (as_dict data) (fun d =>
  obind (as_dict memo_json) (fun mj =>
  if negb (truthy memo_json) then None                           (* assert memo_json *)
  else if dhas "grammar" d then None                             (* cache_grammar: not modelled *)
  else
  obind (deser_memo mj) (fun t =>
  obind (obind (obind (dget "options" d) as_dict) to_options) (fun o0 =>
  if kw_rejected kw then None                                    (* ConfigurationError *)
  else
  obind (lark_options_init (aupdate o0 kw)) (fun o =>
  obind (obind (obind (dget "rules" d) as_list) (omap (deser_rule t))) (fun rules =>
  obind (obind (dget "parser" d) as_dict) (fun pd =>
  obind (obind (dget "lexer_conf" pd) (deser_lexer_conf t o)) (fun lc =>
  obind (obind (dget "parser_conf" pd) (deser_parser_conf t)) (fun pc =>
  obind (obind (dget "parser" pd) (deser_table t)) (fun tb =>
  Some (mkLark (mkFE lc pc tb) rules o))))))))))).

(* ------------------------------------------------------------------ direct construction (Lark.__init__) *)
(* the part of an instance that is computed from the grammar text and the construction-time options only *)
Record gpart := mkG { g_terminals : list termdef; g_ignore : list string; g_lexer_type : string;
                      g_rules : list rule; g_start : list string; g_parser_type : string; g_table : table }.
Definition build (g : gpart) (o : options) : option lark_inst :=
  obind (mk_lexer_conf (g_terminals g) (g_ignore g) (g_lexer_type g) (fun x => lc_attr_at_build x o)) (fun lc =>
  Some (mkLark (mkFE lc (mkPC (g_rules g) (g_start g) (g_parser_type g)) (g_table g)) (g_rules g) o)).
Definition gpart_of (i : lark_inst) : gpart :=
  let fe := li_parser i in
  mkG (lc_terminals (fe_lexer_conf fe)) (lc_ignore (fe_lexer_conf fe)) (lc_lexer_type (fe_lexer_conf fe))
      (li_rules i) (pc_start (fe_parser_conf fe)) (pc_parser_type (fe_parser_conf fe)) (fe_parser fe).

(* all memoised objects of an instance, in the order the serialiser meets them *)
Fixpoint actions_rules (acts : list (string * action)) : list rule :=
  match acts with
  | [] => []
  | (_, Reduce r) :: rest => r :: actions_rules rest
  | _ :: rest => actions_rules rest
  end.
Definition table_rules (t : table) : list rule := flat_map (fun sa => actions_rules (snd sa)) (t_states t).
Definition entries (i : lark_inst) : list mentry :=
  map MTerm (lc_terminals (fe_lexer_conf (li_parser i))) ++
  map MRule (pc_rules (fe_parser_conf (li_parser i))) ++
  map MRule (table_rules (fe_parser (li_parser i))) ++
  map MRule (li_rules i).

(* ------------------------------------------------------------------ the flag test of lexer._create_unless *)
(* [strtok.pattern.flags <= retok.pattern.flags]: subset on frozensets, lexicographic order on lists *)
Fixpoint lex_le (a b : list string) : bool :=
  match a, b with
  | [], _ => true
  | _ :: _, [] => false
  | x :: a', y :: b' => if String.eqb x y then lex_le a' b' else String.ltb x y
  end.
Definition flags_le (a b : flagsv) : option bool :=
  match a, b with
  | FSet x, FSet y => Some (forallb (fun s => mem_str s y) x)
  | FList x, FList y => Some (lex_le x y)
  | _, _ => None      (* TypeError *)
  end.
(* deserialisation without the Pattern._deserialize hook (lark before the repair): flags stay a list *)
Definition flags_as_list (f : flagsv) : flagsv := FList (flags_elems f).
