(* C11 - universe of Python values that occur in lark's serialised form (the pickled / printed
   [{'data': ..., 'memo': ...}] of Lark.save, the DATA / MEMO literals of the stand-alone module).
   Executable definitions only. *)
From Coq Require Import ZArith List Bool String Ascii.
Import ListNotations.
Local Open Scope string_scope.
Local Open Scope list_scope.

Inductive value : Type :=
| VNone
| VBool (b : bool)
| VInt (z : Z)
| VStr (s : string)
| VList (l : list value)
| VTuple (l : list value)
| VDict (d : list (value * value))     (* insertion-ordered, as a Python dict *)
| VOpaque (n : nat).                   (* an object the serialiser passes through untouched
                                          (callable, module, transformer, postlexer ...) *)

(* The two dict shapes utils._deserialize recognises.  An object of class [ty] with serialised
   attributes [fields] is the dict {f1: v1, ..., '__type__': ty}; a memo reference is {'@': n}. *)
Definition TYPE_KEY : string := "__type__".
Definition REF_KEY : string := "@".
Definition VObj (ty : string) (fields : list (string * value)) : value :=
  VDict (map (fun fv => (VStr (fst fv), snd fv)) fields ++ [(VStr TYPE_KEY, VStr ty)]).
Definition VRef (n : nat) : value := VDict [(VStr REF_KEY, VInt (Z.of_nat n))].

Fixpoint list_eqb {A} (e : A -> A -> bool) (a b : list A) : bool :=
  match a, b with
  | [], [] => true
  | x :: a', y :: b' => e x y && list_eqb e a' b'
  | _, _ => false
  end.

Fixpoint value_eqb (a b : value) {struct a} : bool :=
  let lst := fix go (p q : list value) : bool :=
               match p, q with
               | [], [] => true
               | x :: p', y :: q' => value_eqb x y && go p' q'
               | _, _ => false
               end in
  match a, b with
  | VNone, VNone => true
  | VBool x, VBool y => Bool.eqb x y
  | VInt x, VInt y => Z.eqb x y
  | VStr x, VStr y => String.eqb x y
  | VList x, VList y => lst x y
  | VTuple x, VTuple y => lst x y
  | VDict x, VDict y =>
      (fix go (p q : list (value * value)) : bool :=
         match p, q with
         | [], [] => true
         | (k1, v1) :: p', (k2, v2) :: q' => value_eqb k1 k2 && value_eqb v1 v2 && go p' q'
         | _, _ => false
         end) x y
  | VOpaque x, VOpaque y => Nat.eqb x y
  | _, _ => false
  end.

(* d[k] for string keys (None = KeyError) and  k in d *)
Fixpoint dget (k : string) (d : list (value * value)) : option value :=
  match d with
  | [] => None
  | (VStr k', v) :: r => if String.eqb k k' then Some v else dget k r
  | _ :: r => dget k r
  end.
Definition dhas (k : string) (d : list (value * value)) : bool :=
  match dget k d with Some _ => true | None => false end.

(* d[n] for integer keys *)
Fixpoint dgeti (k : Z) (d : list (value * value)) : option value :=
  match d with
  | [] => None
  | (VInt k', v) :: r => if Z.eqb k k' then Some v else dgeti k r
  | _ :: r => dgeti k r
  end.

(* association lists with string keys (attribute maps, option dicts) *)
Fixpoint aget {A} (k : string) (d : list (string * A)) : option A :=
  match d with
  | [] => None
  | (k', v) :: r => if String.eqb k k' then Some v else aget k r
  end.

Fixpoint mem_str (x : string) (l : list string) : bool :=
  match l with [] => false | y :: r => if String.eqb x y then true else mem_str x r end.

(* Python truthiness of the values that can be option values *)
Definition truthy (v : value) : bool :=
  match v with
  | VNone => false
  | VBool b => b
  | VInt z => negb (Z.eqb z 0)
  | VStr s => negb (String.eqb s "")
  | VList l | VTuple l => match l with [] => false | _ => true end
  | VDict d => match d with [] => false | _ => true end
  | VOpaque _ => true
  end.

(* option monad helpers *)
Definition obind {A B} (o : option A) (f : A -> option B) : option B :=
  match o with Some a => f a | None => None end.
Fixpoint omap {A B} (f : A -> option B) (l : list A) : option (list B) :=
  match l with
  | [] => Some []
  | x :: r => match f x with
              | Some y => match omap f r with Some ys => Some (y :: ys) | None => None end
              | None => None
              end
  end.

Definition as_str (v : value) : option string := match v with VStr s => Some s | _ => None end.
Definition as_int (v : value) : option Z := match v with VInt z => Some z | _ => None end.
Definition as_bool (v : value) : option bool := match v with VBool b => Some b | _ => None end.
Definition as_list (v : value) : option (list value) := match v with VList l => Some l | _ => None end.
Definition as_dict (v : value) : option (list (value * value)) := match v with VDict d => Some d | _ => None end.
Definition as_ostr (v : value) : option (option string) :=
  match v with VNone => Some None | VStr s => Some (Some s) | _ => None end.
Definition as_oint (v : value) : option (option Z) :=
  match v with VNone => Some None | VInt z => Some (Some z) | _ => None end.

Definition of_ostr (o : option string) : value := match o with Some s => VStr s | None => VNone end.
Definition of_oint (o : option Z) : value := match o with Some z => VInt z | None => VNone end.

(* how Lark._deserialize_lexer_conf computes a re-supplied LexerConf attribute from a load-time option:
   [lexer_conf.a = options.o] | [options.o or {}] | [regex if options.o else re] *)
Inductive resupply_kind := RPlain | ROrEmptyDict | RModuleChoice.
